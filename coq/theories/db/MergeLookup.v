(* Well-formedness of the tree (pairwise distinct UUIDs) and the central lookup lemma:
   under that hypothesis the location computed by find_node_location ([fnl_db]) designates,
   through the path lookup ([find_group]), the group that really contains the one node
   carrying the UUID.  Also: how [put_group] changes the UUIDs of a tree, and that the changes
   made by merge_deletions keep the UUIDs distinct. *)
From KP Require Import Bytes Outcome Tree TreeFacts History Merge.
Local Open Scope N_scope.

(* ---------- lists without duplicates ---------- *)

Lemma NoDup_app_iff {A} (a b : list A) :
  NoDup (a ++ b) <-> NoDup a /\ NoDup b /\ (forall x, In x a -> ~ In x b).
Proof.
  induction a as [|y r IH]; cbn [app].
  - split.
    + intro H. split; [constructor|]. split; [exact H|]. intros x [].
    + intros (_ & H & _). exact H.
  - rewrite !NoDup_cons_iff, IH, in_app_iff. split.
    + intros (Hy & Hr & Hb & Hd). split; [split; [tauto|exact Hr]|]. split; [exact Hb|].
      intros x [<-|Hx]; [tauto|apply Hd; exact Hx].
    + intros ((Hy & Hr) & Hb & Hd). split.
      * intros [H|H]; [contradiction|]. apply (Hd y); [left; reflexivity|exact H].
      * split; [exact Hr|]. split; [exact Hb|]. intros x Hx. apply Hd. right. exact Hx.
Qed.

(* [sub l' l]: l' only has elements of l, and no repetition that l does not have *)
Definition sub {A} (l' l : list A) : Prop := incl l' l /\ (NoDup l -> NoDup l').

Lemma sub_refl {A} (l : list A) : sub l l.
Proof. split; [apply incl_refl|auto]. Qed.

Lemma sub_trans {A} (a b c : list A) : sub a b -> sub b c -> sub a c.
Proof. intros [I1 N1] [I2 N2]. split; [eapply incl_tran; eassumption|auto]. Qed.

Lemma sub_app {A} (a' a b' b : list A) : sub a' a -> sub b' b -> sub (a' ++ b') (a ++ b).
Proof.
  intros [Ia Na] [Ib Nb]. split.
  - apply incl_app; [apply incl_appl|apply incl_appr]; assumption.
  - rewrite !NoDup_app_iff. intros (Ha & Hb & Hd). split; [auto|]. split; [auto|].
    intros x Hx Hx'. apply (Hd x); auto.
Qed.

Lemma sub_drop {A} (a b : list A) : sub b (a ++ b).
Proof. change b with ([] ++ b) at 1. apply sub_app; [|apply sub_refl]. split; [intros x []|constructor]. Qed.

Lemma sub_cons {A} (x : A) (a' a : list A) : sub a' a -> sub (x :: a') (x :: a).
Proof. intro H. change (sub ([x] ++ a') ([x] ++ a)). apply sub_app; [apply sub_refl|exact H]. Qed.

(* ---------- all UUIDs, all nodes, height ---------- *)

(* the UUIDs of all proper descendants, depth first *)
Fixpoint all_uuids (n : node) : list N :=
  match n with
  | NE _ => []
  | NG _ ch => flat_map (fun c => uuid_of c :: all_uuids c) ch
  end.

Definition uuids_unique (children : list node) : Prop :=
  NoDup (flat_map (fun c => uuid_of c :: all_uuids c) children).

Definition uu (c : node) : list N := uuid_of c :: all_uuids c.
Definition uus (l : list node) : list N := flat_map uu l.

Lemma uuids_unique_uus ch : uuids_unique ch <-> NoDup (uus ch).
Proof. reflexivity. Qed.

Lemma all_uuids_children x : all_uuids x = uus (children_of x).
Proof. destruct x; reflexivity. Qed.

(* all proper descendants, in the same order *)
Fixpoint all_nodes (n : node) : list node :=
  match n with
  | NE _ => []
  | NG _ ch => flat_map (fun c => c :: all_nodes c) ch
  end.

Definition nn (c : node) : list node := c :: all_nodes c.
Definition nodes_of (l : list node) : list node := flat_map nn l.

Lemma all_nodes_children x : all_nodes x = nodes_of (children_of x).
Proof. destruct x; reflexivity. Qed.

Lemma all_uuids_nodes : forall n, all_uuids n = map uuid_of (all_nodes n).
Proof.
  induction n as [e|i c IH] using node_ind'; [reflexivity|].
  cbn [all_uuids all_nodes]. induction IH as [|x r Hx _ IHr]; [reflexivity|].
  cbn [flat_map map]. rewrite map_app, Hx, IHr. reflexivity.
Qed.

Lemma uus_nodes l : uus l = map uuid_of (nodes_of l).
Proof.
  induction l as [|x r IH]; [reflexivity|].
  unfold uus, nodes_of in *. cbn [flat_map]. rewrite map_app, IH. unfold uu, nn.
  cbn [map app]. rewrite all_uuids_nodes. reflexivity.
Qed.

Lemma uus_cons x r : uus (x :: r) = uuid_of x :: all_uuids x ++ uus r.
Proof. reflexivity. Qed.

Lemma uus_app a b : uus (a ++ b) = uus a ++ uus b.
Proof. apply flat_map_app. Qed.

Lemma nodes_of_cons x r : nodes_of (x :: r) = x :: all_nodes x ++ nodes_of r.
Proof. reflexivity. Qed.

Lemma in_nodes_of_self x l : In x l -> In x (nodes_of l).
Proof. intro H. apply in_flat_map. exists x. split; [exact H|left; reflexivity]. Qed.

Lemma in_nodes_of_child x l : In x l -> incl (nodes_of (children_of x)) (nodes_of l).
Proof.
  intros H y Hy. apply in_flat_map. exists x. split; [exact H|]. right.
  rewrite all_nodes_children. exact Hy.
Qed.

Lemma in_uus_self x l : In x l -> In (uuid_of x) (uus l).
Proof. intro H. apply in_flat_map. exists x. split; [exact H|left; reflexivity]. Qed.

Lemma in_uus_child x l : In x l -> incl (uus (children_of x)) (uus l).
Proof.
  intros H y Hy. apply in_flat_map. exists x. split; [exact H|]. right.
  rewrite all_uuids_children. exact Hy.
Qed.

Lemma uus_unique_tail x r : NoDup (uus (x :: r)) -> NoDup (uus r).
Proof. rewrite uus_cons. intro H. change (NoDup (uu x ++ uus r)) in H. apply NoDup_app_iff in H. tauto. Qed.

Lemma uus_unique_child x l : NoDup (uus l) -> In x l -> NoDup (uus (children_of x)).
Proof.
  induction l as [|y r IH]; intros Nd Hi; [destruct Hi|]. destruct Hi as [->|Hi].
  - rewrite uus_cons in Nd. apply NoDup_cons_iff in Nd as [_ Nd]. apply NoDup_app_iff in Nd.
    rewrite <- all_uuids_children. tauto.
  - apply IH; [eapply uus_unique_tail; exact Nd|exact Hi].
Qed.

Fixpoint height (n : node) : nat :=
  match n with
  | NE _ => 0
  | NG _ ch => S (list_max (map height ch))
  end.

Lemma height_child c i ch : In c ch -> (height c < height (NG i ch))%nat.
Proof.
  intro H. cbn [height]. apply Nat.lt_succ_r.
  assert (F : Forall (fun k => (k <= list_max (map height ch))%nat) (map height ch))
    by (apply list_max_le; apply Nat.le_refl).
  apply (proj1 (Forall_forall _ _) F). apply in_map. exact H.
Qed.

(* ---------- the first child with a given UUID is the only one ---------- *)

Lemma find_unique (p : node -> bool) ch x :
  NoDup (uus ch) -> In x ch -> p x = true ->
  (forall c, p c = true -> uuid_of c = uuid_of x) ->
  find p ch = Some x.
Proof.
  induction ch as [|y r IH]; intros Nd Hi Hp Hu; [destruct Hi|].
  cbn [find]. destruct Hi as [->|Hi]; [rewrite Hp; reflexivity|].
  destruct (p y) eqn:E.
  - exfalso. apply Hu in E. rewrite uus_cons in Nd. apply NoDup_cons_iff in Nd as [Hn _].
    apply Hn. apply in_or_app. right. rewrite E. apply in_uus_self. exact Hi.
  - apply IH; auto. eapply uus_unique_tail. exact Nd.
Qed.

Lemma find_by_uuid ch x :
  NoDup (uus ch) -> In x ch -> find (fun c => N.eqb (uuid_of c) (uuid_of x)) ch = Some x.
Proof.
  intros Nd Hi. apply find_unique; auto.
  - apply N.eqb_refl.
  - intros c Hc. apply N.eqb_eq. exact Hc.
Qed.

Lemma find_group_by_uuid ch x :
  NoDup (uus ch) -> In x ch -> is_group x = true ->
  find (fun c => is_group c && N.eqb (uuid_of c) (uuid_of x)) ch = Some x.
Proof.
  intros Nd Hi Hg. apply find_unique; auto.
  - rewrite Hg, N.eqb_refl. reflexivity.
  - intros c Hc. apply andb_true_iff in Hc as [_ Hc]. apply N.eqb_eq. exact Hc.
Qed.

(* ---------- find_node_location, unfolded ---------- *)

Lemma fnl_in_fnl_db u i ch : fnl_in u (NG i ch) = option_map (cons (gi_uuid i)) (fnl_db u ch).
Proof.
  induction ch as [|x r IH]; [reflexivity|].
  cbn [fnl_in] in IH |- *. cbn [fnl_db]. destruct x as [j c|e].
  - destruct (N.eqb (gi_uuid j) u); [reflexivity|].
    destruct (fnl_in u (NG j c)); [reflexivity|]. exact IH.
  - destruct (N.eqb (e_uuid e) u); [reflexivity|]. exact IH.
Qed.

Lemma fnl_db_cons u x r :
  fnl_db u (x :: r) =
  if N.eqb (uuid_of x) u then Some []
  else match fnl_db u (children_of x) with
       | Some loc => Some (uuid_of x :: loc)
       | None => fnl_db u r
       end.
Proof.
  destruct x as [j c|e]; cbn [fnl_db uuid_of children_of]; [|reflexivity].
  rewrite fnl_in_fnl_db. destruct (fnl_db u c); reflexivity.
Qed.

Lemma fnl_db_children_group u x loc : fnl_db u (children_of x) = Some loc -> is_group x = true.
Proof. destruct x; [reflexivity|discriminate]. Qed.

(* one step of the location *)
Lemma fnl_db_step u ch loc :
  fnl_db u ch = Some loc ->
  match loc with
  | [] => exists n, In n ch /\ uuid_of n = u
  | j :: loc' => exists x, In x ch /\ is_group x = true /\ uuid_of x = j
                           /\ fnl_db u (children_of x) = Some loc'
  end.
Proof.
  induction ch as [|x r IH]; [discriminate|]. rewrite fnl_db_cons.
  destruct (N.eqb_spec (uuid_of x) u) as [E|Ne].
  - intro H. injection H as <-. exists x. split; [left; reflexivity|exact E].
  - destruct (fnl_db u (children_of x)) as [l|] eqn:Ex.
    + intro H. injection H as <-. exists x. split; [left; reflexivity|].
      split; [eapply fnl_db_children_group; exact Ex|]. split; [reflexivity|exact Ex].
    + intro H. apply IH in H. destruct loc as [|j loc'].
      * destruct H as [n [Hn Hu]]. exists n. split; [right; exact Hn|exact Hu].
      * destruct H as [y [Hy Hr]]. exists y. split; [right; exact Hy|exact Hr].
Qed.

(* ---------- the group reached from a list of children by a path of group UUIDs ---------- *)

Fixpoint at_path (loc : list N) (ch pc : list node) : Prop :=
  match loc with
  | [] => pc = ch
  | j :: loc' => exists x, In x ch /\ is_group x = true /\ uuid_of x = j
                           /\ at_path loc' (children_of x) pc
  end.

Lemma fnl_db_at_path u : forall loc ch,
  fnl_db u ch = Some loc ->
  exists pc, at_path loc ch pc /\ exists n, In n pc /\ uuid_of n = u.
Proof.
  induction loc as [|j loc' IH]; intros ch H; apply fnl_db_step in H.
  - exists ch. split; [reflexivity|exact H].
  - destruct H as (x & Hx & Hg & Hu & Hr). apply IH in Hr as (pc & Hp & Hn).
    exists pc. split; [|exact Hn]. exists x. auto.
Qed.

Lemma at_path_nodes : forall loc ch pc, at_path loc ch pc -> incl (nodes_of pc) (nodes_of ch).
Proof.
  induction loc as [|j loc' IH]; intros ch pc H; cbn [at_path] in H.
  - subst pc. apply incl_refl.
  - destruct H as (x & Hx & _ & _ & Hr). apply IH in Hr.
    eapply incl_tran; [exact Hr|]. apply in_nodes_of_child. exact Hx.
Qed.

Lemma at_path_uus : forall loc ch pc, at_path loc ch pc -> incl (uus pc) (uus ch).
Proof.
  intros loc ch pc H. rewrite !uus_nodes. intros u Hu. apply in_map_iff in Hu as (n & <- & Hn).
  apply in_map. eapply at_path_nodes; eassumption.
Qed.

Lemma at_path_unique : forall loc ch pc, at_path loc ch pc -> NoDup (uus ch) -> NoDup (uus pc).
Proof.
  induction loc as [|j loc' IH]; intros ch pc H Nd; cbn [at_path] in H.
  - subst pc. exact Nd.
  - destruct H as (x & Hx & _ & _ & Hr). eapply IH; [exact Hr|]. eapply uus_unique_child; eassumption.
Qed.

Lemma at_path_snoc : forall loc ch pc g,
  at_path loc ch pc -> In g pc -> is_group g = true ->
  at_path (loc ++ [uuid_of g]) ch (children_of g).
Proof.
  induction loc as [|j loc' IH]; intros ch pc g H Hg Gg; cbn [at_path app] in H |- *.
  - subst pc. exists g. auto.
  - destruct H as (x & Hx & Gx & Hu & Hr). exists x. repeat (split; [assumption|]).
    eapply IH; eassumption.
Qed.

(* the path lookup follows exactly that path when UUIDs are distinct *)
Lemma get_uuid_at_path : forall loc g pc,
  NoDup (uus (children_of g)) -> is_group g = true ->
  at_path loc (children_of g) pc ->
  exists pi, get_uuid loc g = Some (NG pi pc).
Proof.
  induction loc as [|j loc' IH]; intros g pc Nd Gg H; cbn [at_path] in H.
  - subst pc. destruct g as [i c|e]; [|discriminate]. exists i. reflexivity.
  - destruct H as (x & Hx & Gx & Hu & Hr). subst j.
    assert (Ndx : NoDup (uus (children_of x))) by (eapply uus_unique_child; eassumption).
    destruct (IH x pc Ndx Gx Hr) as [pi Hpi]. exists pi.
    cbn [get_uuid]. destruct loc' as [|k l].
    + rewrite (find_by_uuid _ x Nd Hx). exact Hpi.
    + rewrite (find_group_by_uuid _ x Nd Hx Gx). exact Hpi.
Qed.

(* ---------- (A) the central lookup lemma ---------- *)

(* with the path made explicit *)
Lemma fnl_db_lookup u root loc :
  uuids_unique (children_of root) ->
  fnl_db u (children_of root) = Some loc ->
  exists pi pc n, at_path loc (children_of root) pc
    /\ find_group loc root = Some (pi, pc)
    /\ In n pc /\ uuid_of n = u
    /\ find (fun c => N.eqb (uuid_of c) u) pc = Some n.
Proof.
  intros Nd H. apply uuids_unique_uus in Nd.
  assert (Gr : is_group root = true).
  { destruct root; [reflexivity|discriminate]. }
  apply fnl_db_at_path in H as (pc & Hp & n & Hn & Hu).
  destruct (get_uuid_at_path loc root pc Nd Gr Hp) as [pi Hpi].
  exists pi, pc, n. unfold find_group. rewrite Hpi. split; [exact Hp|]. split; [reflexivity|].
  split; [exact Hn|]. split; [exact Hu|]. subst u.
  apply find_by_uuid; [|exact Hn]. eapply at_path_unique; eassumption.
Qed.

Theorem fnl_db_find_group u root loc :
  uuids_unique (children_of root) ->
  fnl_db u (children_of root) = Some loc ->
  exists pi pc, find_group loc root = Some (pi, pc)
    /\ exists n, In n pc /\ uuid_of n = u
                 /\ find (fun c => N.eqb (uuid_of c) u) pc = Some n.
Proof.
  intros Nd H. destruct (fnl_db_lookup u root loc Nd H) as (pi & pc & n & _ & Hf & Hn & Hu & Hfi).
  exists pi, pc. split; [exact Hf|]. exists n. auto.
Qed.

(* the statement for a root written as a group *)
Corollary fnl_db_find_group_NG u ri ch loc :
  uuids_unique ch ->
  fnl_db u ch = Some loc ->
  exists pi pc, find_group loc (NG ri ch) = Some (pi, pc)
    /\ exists n, In n pc /\ uuid_of n = u
                 /\ find (fun c => N.eqb (uuid_of c) u) pc = Some n.
Proof. intros Nd H. apply (fnl_db_find_group u (NG ri ch) loc Nd H). Qed.

Theorem fnl_db_some_in u ch loc :
  fnl_db u ch = Some loc -> In u (flat_map (fun c => uuid_of c :: all_uuids c) ch).
Proof.
  intro H. apply fnl_db_at_path in H as (pc & Hp & n & Hn & <-).
  change (In (uuid_of n) (uus ch)). eapply at_path_uus; [exact Hp|]. apply in_uus_self. exact Hn.
Qed.

Lemma fnl_db_none_node : forall n u, fnl_db u (children_of n) = None -> ~ In u (all_uuids n).
Proof.
  induction n as [e|i c IH] using node_ind'; intros u H; [intros []|].
  cbn [children_of all_uuids] in *. induction IH as [|x r Hx _ IHr]; [intros []|].
  rewrite fnl_db_cons in H. destruct (N.eqb_spec (uuid_of x) u) as [E|Ne]; [discriminate|].
  destruct (fnl_db u (children_of x)) eqn:Ex; [discriminate|].
  cbn [flat_map]. intros [Hu|Hu]; [contradiction|]. apply in_app_or in Hu as [Hu|Hu].
  - exact (Hx u Ex Hu).
  - exact (IHr H Hu).
Qed.

Theorem fnl_db_none_notin u ch :
  fnl_db u ch = None -> ~ In u (flat_map (fun c => uuid_of c :: all_uuids c) ch).
Proof. intro H. apply (fnl_db_none_node (NG (mkGinfo 0 0 times_default) ch) u H). Qed.

Corollary fnl_db_some_iff u ch :
  (exists loc, fnl_db u ch = Some loc) <-> In u (flat_map (fun c => uuid_of c :: all_uuids c) ch).
Proof.
  split.
  - intros [loc H]. eapply fnl_db_some_in. exact H.
  - intro H. destruct (fnl_db u ch) as [loc|] eqn:E; [exists loc; reflexivity|].
    exfalso. exact (fnl_db_none_notin u ch E H).
Qed.

(* ---------- writing back through a path: update_uuid / put_group ---------- *)

Lemma update_first_spec p f : forall l l',
  update_first p f l = Some l' ->
  exists a x b x', l = a ++ x :: b /\ find p l = Some x /\ f x = Some x' /\ l' = a ++ x' :: b.
Proof.
  induction l as [|y r IH]; intros l' H; cbn [update_first find] in *; [discriminate|].
  destruct (p y).
  - destruct (f y) as [y'|] eqn:Ey; [|discriminate]. injection H as <-.
    exists [], y, r, y'. auto.
  - destruct (update_first p f r) as [r'|]; [|discriminate]. injection H as <-.
    destruct (IH r' eq_refl) as (a & x & b & x' & -> & Hf & Hx & ->).
    exists (y :: a), x, b, x'. auto.
Qed.

Lemma update_first_some p f : forall l x x',
  find p l = Some x -> f x = Some x' -> exists l', update_first p f l = Some l'.
Proof.
  induction l as [|y r IH]; intros x x' H Hx; cbn [update_first find] in *; [discriminate|].
  destruct (p y).
  - injection H as ->. rewrite Hx. eexists. reflexivity.
  - destruct (IH x x' H Hx) as [r' ->]. eexists. reflexivity.
Qed.

Lemma sub_replace a x x' b :
  uuid_of x' = uuid_of x -> sub (all_uuids x') (all_uuids x) ->
  sub (uus (a ++ x' :: b)) (uus (a ++ x :: b)).
Proof.
  intros Hu Hs. rewrite !uus_app, !uus_cons, Hu.
  apply sub_app; [apply sub_refl|]. apply sub_cons. apply sub_app; [exact Hs|apply sub_refl].
Qed.

(* [update_uuid] rewrites the node that [get_uuid] finds; if the new node has the same UUID and
   no new UUIDs below it, the same holds for the whole tree *)
Lemma update_uuid_spec : forall path f n n',
  update_uuid path f n = Some n' ->
  exists g g', get_uuid path n = Some g /\ f g = Some g'
    /\ (uuid_of g' = uuid_of g -> sub (all_uuids g') (all_uuids g) ->
        uuid_of n' = uuid_of n /\ sub (all_uuids n') (all_uuids n)).
Proof.
  induction path as [|h tail IH]; intros f n n' H.
  - cbn [update_uuid get_uuid] in *. exists n, n'. auto.
  - destruct n as [i ch|e]; [|discriminate]. cbn [update_uuid] in H. destruct tail as [|k l].
    + destruct (update_first _ f ch) as [ch'|] eqn:E; [|discriminate]. injection H as <-.
      apply update_first_spec in E as (a & x & b & x' & -> & Hf & Hx & ->).
      exists x, x'. cbn [get_uuid children_of]. split; [exact Hf|]. split; [exact Hx|].
      intros Hu Hs. split; [reflexivity|]. rewrite !all_uuids_children. cbn [children_of].
      apply sub_replace; assumption.
    + destruct (update_first _ _ ch) as [ch'|] eqn:E; [|discriminate]. injection H as <-.
      apply update_first_spec in E as (a & x & b & x' & -> & Hf & Hx & ->).
      apply IH in Hx as (g & g' & Hg & Hfg & Himp).
      exists g, g'. split; [|split; [exact Hfg|]].
      * change (get_uuid (h :: k :: l) (NG i (a ++ x :: b)))
          with (match find (fun c => is_group c && N.eqb (uuid_of c) h) (a ++ x :: b) with
                | Some g0 => get_uuid (k :: l) g0 | None => None end).
        rewrite Hf. exact Hg.
      * intros Hu Hs. destruct (Himp Hu Hs) as [Hu' Hs']. split; [reflexivity|].
        rewrite !all_uuids_children. cbn [children_of]. apply sub_replace; assumption.
Qed.

Lemma update_uuid_some : forall path f n g g',
  get_uuid path n = Some g -> f g = Some g' -> exists n', update_uuid path f n = Some n'.
Proof.
  induction path as [|h tail IH]; intros f n g g' H Hf.
  - cbn [update_uuid get_uuid] in *. injection H as ->. exists g'. exact Hf.
  - destruct n as [i ch|e].
    + cbn [update_uuid]. destruct tail as [|k l].
      * cbn [get_uuid children_of] in H.
        destruct (update_first_some _ f ch g g' H Hf) as [ch' ->]. eexists. reflexivity.
      * change (get_uuid (h :: k :: l) (NG i ch))
          with (match find (fun c => is_group c && N.eqb (uuid_of c) h) ch with
                | Some g0 => get_uuid (k :: l) g0 | None => None end) in H.
        destruct (find _ ch) as [x|] eqn:Ex; [|discriminate].
        destruct (IH f x g g' H Hf) as [x' Hx'].
        destruct (update_first_some _ (update_uuid (k :: l) f) ch x x' Ex Hx') as [ch' ->].
        eexists. reflexivity.
    + exfalso. cbn [get_uuid children_of find] in H. destruct tail; discriminate.
Qed.

Lemma put_group_is_group path i c root root' :
  put_group path i c root = Some root' -> is_group root' = true /\ is_group root = true.
Proof.
  unfold put_group. destruct path as [|h tail]; cbn [update_uuid].
  - destruct root; [|discriminate]. intro H. injection H as <-. auto.
  - destruct root as [ri ch|e]; [|discriminate]. destruct tail.
    + destruct (update_first _ _ ch); [|discriminate]. intro H. injection H as <-. auto.
    + destruct (update_first _ _ ch); [|discriminate]. intro H. injection H as <-. auto.
Qed.

Lemma put_group_some path root pi pc i c :
  find_group path root = Some (pi, pc) -> exists root', put_group path i c root = Some root'.
Proof.
  unfold find_group, put_group. destruct (get_uuid path root) as [[gi gc|e]|] eqn:E; try discriminate.
  intros _. eapply update_uuid_some; [exact E|reflexivity].
Qed.

(* ---------- filtering children keeps the UUIDs distinct ---------- *)

Lemma uus_filter (q : node -> bool) l : sub (uus (filter q l)) (uus l).
Proof.
  induction l as [|x r IH]; [apply sub_refl|]. cbn [filter]. destruct (q x).
  - rewrite !uus_cons. apply sub_cons. apply sub_app; [apply sub_refl|exact IH].
  - eapply sub_trans; [exact IH|]. change (uus (x :: r)) with (uu x ++ uus r). apply sub_drop.
Qed.

Lemma put_group_sub path root pi pc kept root' :
  find_group path root = Some (pi, pc) ->
  put_group path pi kept root = Some root' ->
  sub (uus kept) (uus pc) ->
  sub (uus (children_of root')) (uus (children_of root)).
Proof.
  unfold find_group, put_group. intros Hf Hp Hs.
  apply update_uuid_spec in Hp as (g & g' & Hg & Hfg & Himp). rewrite Hg in Hf.
  destruct g as [gi gc|e]; [|discriminate]. injection Hf as -> ->. injection Hfg as <-.
  rewrite <- !all_uuids_children. apply Himp; [reflexivity|]. exact Hs.
Qed.

Lemma put_group_filter_unique path root pi pc q root' :
  find_group path root = Some (pi, pc) ->
  put_group path pi (filter q pc) root = Some root' ->
  uuids_unique (children_of root) -> uuids_unique (children_of root').
Proof.
  intros Hf Hp Nd. apply uuids_unique_uus. apply uuids_unique_uus in Nd.
  apply (put_group_sub path root pi pc _ root' Hf Hp (uus_filter q pc)). exact Nd.
Qed.

(* ---------- Group::remove_node ---------- *)

Lemma remove_node_kept u ch nd kept :
  remove_node u ch = Some (nd, kept) -> kept = filter (fun c => negb (N.eqb (uuid_of c) u)) ch.
Proof.
  unfold remove_node. destruct (rev _); [discriminate|]. intro H. injection H as _ <-. reflexivity.
Qed.

Lemma remove_node_some u ch n :
  find (fun c => N.eqb (uuid_of c) u) ch = Some n ->
  exists nd, remove_node u ch = Some (nd, filter (fun c => negb (N.eqb (uuid_of c) u)) ch).
Proof.
  intro H. unfold remove_node.
  assert (Hin : In n (rev (filter (fun c => N.eqb (uuid_of c) u) ch))).
  { apply in_rev. rewrite rev_involutive. apply filter_In. apply find_some in H. exact H. }
  destruct (rev _) as [|x r]; [destruct Hin|]. exists x. reflexivity.
Qed.

(* ---------- the rank of a UUID: the height of the node that carries it ---------- *)

Definition node_rank (u : N) (ch : list node) : nat :=
  match find (fun n => N.eqb (uuid_of n) u) (nodes_of ch) with
  | Some n => height n
  | None => O
  end.

Lemma find_by_key {A} (f : A -> N) (l : list A) x :
  NoDup (map f l) -> In x l -> find (fun y => N.eqb (f y) (f x)) l = Some x.
Proof.
  induction l as [|y r IH]; intros Nd Hi; [destruct Hi|]. cbn [find map] in *.
  apply NoDup_cons_iff in Nd as [Hn Nd]. destruct Hi as [->|Hi]; [rewrite N.eqb_refl; reflexivity|].
  destruct (N.eqb_spec (f y) (f x)) as [E|Ne]; [|auto].
  exfalso. apply Hn. rewrite E. apply in_map. exact Hi.
Qed.

Lemma node_rank_in ch n :
  uuids_unique ch -> In n (nodes_of ch) -> node_rank (uuid_of n) ch = height n.
Proof.
  intros Nd Hi. change (NoDup (uus ch)) in Nd. rewrite uus_nodes in Nd.
  unfold node_rank. rewrite (find_by_key uuid_of _ n Nd Hi). reflexivity.
Qed.

(* a child group of the group found at a location has a strictly smaller rank *)
Lemma node_rank_child ch loc pc gi gc c :
  uuids_unique ch -> at_path loc ch pc -> In (NG gi gc) pc -> In c gc ->
  (node_rank (uuid_of c) ch < node_rank (gi_uuid gi) ch)%nat.
Proof.
  intros Nd Hp Hg Hc.
  assert (H1 : In (NG gi gc) (nodes_of ch)).
  { eapply at_path_nodes; [exact Hp|]. apply in_nodes_of_self. exact Hg. }
  assert (H2 : In c (nodes_of ch)).
  { eapply at_path_nodes; [eapply (at_path_snoc loc ch pc (NG gi gc)); [exact Hp|exact Hg|reflexivity]|].
    apply in_nodes_of_self. exact Hc. }
  rewrite (node_rank_in ch c Nd H2). change (gi_uuid gi) with (uuid_of (NG gi gc)).
  rewrite (node_rank_in ch _ Nd H1). apply height_child. exact Hc.
Qed.

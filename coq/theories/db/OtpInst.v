(* C19: the keyed hash instantiated with the executable HMAC-SHA-1/256/512 of crypto/, the
   resulting closed theorems, and the RFC 6238 / RFC 4226 test vectors evaluated in Coq. *)
From Coq Require Import Lia.
From KP Require Import Bytes Outcome LE LEFacts Words Sha1 Sha256 Sha512 Hmac Base32 Base32Proofs Otp OtpProofs.
Local Open Scope N_scope.

Definition hmac_alg (alg : otp_alg) (key msg : bytes) : bytes :=
  match alg with
  | ASha1 => hmac_sha1 key msg
  | ASha256 => hmac_sha256 key msg
  | ASha512 => hmac_sha512 key msg
  end.

Lemma be_enc_all_bytes n v : all_bytes (be_enc n v).
Proof.
  unfold be_enc, all_bytes. apply Forall_rev.
  pose proof (le_enc_bytes_ok n v) as H. apply Forall_forall. intros x Hx.
  rewrite forallb_forall in H. specialize (H x Hx). apply N.ltb_lt in H. exact H.
Qed.

Lemma ser_be_all_bytes wsz ws : all_bytes (ser_be wsz ws).
Proof.
  unfold ser_be, all_bytes. induction ws as [|w r IH]; cbn [map concat]; [constructor|].
  apply Forall_app. split; [apply be_enc_all_bytes|exact IH].
Qed.

Lemma sha1_all_bytes m : all_bytes (sha1 m).
Proof. unfold sha1. destruct (md_run _ _ _ _ m) as [[[[h0 h1] h2] h3] h4]. apply ser_be_all_bytes. Qed.
Lemma sha256_all_bytes m : all_bytes (sha256 m).
Proof. unfold sha256. destruct (md_run _ _ _ _ m) as [[[[[[[h0 h1] h2] h3] h4] h5] h6] h7]. apply ser_be_all_bytes. Qed.
Lemma sha512_all_bytes m : all_bytes (sha512 m).
Proof. unfold sha512. destruct (md_run _ _ _ _ m) as [[[[[[[h0 h1] h2] h3] h4] h5] h6] h7]. apply ser_be_all_bytes. Qed.

Lemma hmac_alg_ok alg k m : all_bytes (hmac_alg alg k m) /\ (20 <= length (hmac_alg alg k m))%nat.
Proof.
  destruct alg; cbn [hmac_alg]; unfold hmac_sha1, hmac_sha256, hmac_sha512, hmac.
  - split; [apply sha1_all_bytes|rewrite sha1_length; lia].
  - split; [apply sha256_all_bytes|rewrite sha256_length; lia].
  - split; [apply sha512_all_bytes|rewrite sha512_length; lia].
Qed.

(* the closed form of the refinement theorem *)
Theorem totp_is_rfc6238 alg step digits secret time :
  1 <= step -> digits <= 19 -> time < 2 ^ 64 ->
  totp_custom hmac_alg alg step digits secret time =
  Ok (render_code digits (rfc_totp hmac_alg alg secret time step digits)).
Proof. apply totp_refines_rfc. exact hmac_alg_ok. Qed.

Theorem value_at_never_panics t time :
  1 <= o_period t -> o_digits t <= 19 -> time < 2 ^ 64 ->
  exists code, value_at hmac_alg t time = Ok (code, o_period t - time mod o_period t, o_period t).
Proof. apply value_at_total. exact hmac_alg_ok. Qed.

(* a URI accepted by the parser never has a zero period *)
Theorem parsed_period_positive scheme path pairs t :
  otp_parse b32_decode scheme path pairs = Ok t -> 1 <= o_period t.
Proof.
  unfold otp_parse. destruct (negb _); [discriminate|].
  assert (Hinv : forall ps a a', 1 <= a_period a -> otp_pairs a ps = Ok a' -> 1 <= a_period a').
  { induction ps as [|[k v] r IH]; intros a a' Ha E; cbn [otp_pairs] in E.
    - injection E as <-. exact Ha.
    - destruct (bytes_eqb k s_secret); [eapply IH; [|exact E]; exact Ha|].
      destruct (bytes_eqb k s_issuer); [eapply IH; [|exact E]; exact Ha|].
      destruct (bytes_eqb k s_period).
      { destruct (parse_nonzero_u64 v) as [p|] eqn:Ep; [|discriminate].
        eapply IH; [|exact E]. cbn [a_period]. unfold parse_nonzero_u64 in Ep.
        destruct (parse_u64 v) as [[|q]|]; try discriminate. injection Ep as <-. lia. }
      destruct (bytes_eqb k s_digits); [destruct (parse_u32 v); [eapply IH; [|exact E]; exact Ha|discriminate]|].
      destruct (bytes_eqb k s_algorithm); [destruct (parse_alg v); [eapply IH; [|exact E]; exact Ha|discriminate]|].
      eapply IH; [|exact E]. exact Ha. }
  destruct (otp_pairs _ pairs) as [a'| | |] eqn:E; try discriminate.
  destruct (a_secret a'); [|discriminate]. destruct (b32_decode b); [|discriminate].
  intro H. injection H as <-. cbn [o_period]. eapply Hinv; [|exact E]. cbn. lia.
Qed.

(* ---------- RFC 6238 Appendix B and RFC 4226 Appendix D, evaluated through the model ---------- *)
Definition ascii_digits (s : bytes) := s.
Definition seed20 : bytes := [49;50;51;52;53;54;55;56;57;48;49;50;51;52;53;54;55;56;57;48].
Definition seed32 : bytes := seed20 ++ [49;50;51;52;53;54;55;56;57;48;49;50].
Definition seed64 : bytes := seed20 ++ seed20 ++ seed20 ++ [49;50;51;52].

Definition code_of (alg : otp_alg) (seed : bytes) (time : N) : outcome unit bytes :=
  totp_custom hmac_alg alg 30 8 seed time.

(* "94287082" etc. as ASCII *)
Example rfc6238_sha1_59 : code_of ASha1 seed20 59 = Ok [57;52;50;56;55;48;56;50].
Proof. vm_compute. reflexivity. Qed.
Example rfc6238_sha256_59 : code_of ASha256 seed32 59 = Ok [52;54;49;49;57;50;52;54].
Proof. vm_compute. reflexivity. Qed.
Example rfc6238_sha512_59 : code_of ASha512 seed64 59 = Ok [57;48;54;57;51;57;51;54].
Proof. vm_compute. reflexivity. Qed.
Example rfc6238_sha1_1111111109 : code_of ASha1 seed20 1111111109 = Ok [48;55;48;56;49;56;48;52].
Proof. vm_compute. reflexivity. Qed.
Example rfc6238_sha256_1111111111 : code_of ASha256 seed32 1111111111 = Ok [54;55;48;54;50;54;55;52].
Proof. vm_compute. reflexivity. Qed.
Example rfc6238_sha512_20000000000 : code_of ASha512 seed64 20000000000 = Ok [52;55;56;54;51;56;50;54].
Proof. vm_compute. reflexivity. Qed.
Example rfc6238_sha1_20000000000 : code_of ASha1 seed20 20000000000 = Ok [54;53;51;53;51;49;51;48].
Proof. vm_compute. reflexivity. Qed.
(* RFC 4226 Appendix D: HOTP counter 0 and 9, 6 digits: 755224, 520489 *)
Example rfc4226_c0 : rfc_hotp hmac_alg ASha1 seed20 0 6 = 755224.
Proof. vm_compute. reflexivity. Qed.
Example rfc4226_c9 : rfc_hotp hmac_alg ASha1 seed20 9 6 = 520489.
Proof. vm_compute. reflexivity. Qed.

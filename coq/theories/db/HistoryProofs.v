(* Proofs about entry history (C17). *)
From KP Require Import Bytes Tree TreeFacts History.

(* "differs, ignoring time stamps and history" *)
Definition differs (e last : entry) : Prop := sanitize e <> sanitize last.

Lemma sanitize_eq_iff e x :
  sanitize e = sanitize x <-> e_uuid e = e_uuid x /\ e_data e = e_data x.
Proof.
  unfold sanitize. split.
  - intro H. injection H. auto.
  - intros [-> ->]. reflexivity.
Qed.

Lemma huc_spec e :
  has_uncommitted_changes e = true <->
  (e_hist e = None \/ e_hist e = Some [] \/ exists last tl, e_hist e = Some (last :: tl) /\ differs e last).
Proof.
  unfold has_uncommitted_changes, differs. destruct (e_hist e) as [[|last tl]|].
  - split; auto.
  - rewrite negb_true_iff, entry_eqb_neq. split.
    + intro H. right. right. exists last, tl. auto.
    + intros [H|[H|[l [t [H D]]]]]; try discriminate. injection H as -> ->. exact D.
  - split; auto.
Qed.

(* A commit adds an item exactly when the entry has no history yet (absent or empty) or differs
   from the newest item. *)
Theorem commit_adds_iff now e :
  snd (update_history now e) = true <->
  (e_hist e = None \/ e_hist e = Some [] \/ exists last tl, e_hist e = Some (last :: tl) /\ differs e last).
Proof.
  destruct e as [u d t h]. unfold update_history. cbn [e_hist].
  destruct h as [[|last tl]|]; cbn [e_set_hist e_hist e_uuid e_data e_times has_uncommitted_changes negb snd fst].
  - cbn. split; auto.
  - destruct (entry_eqb _ _) eqn:E; cbn [negb snd e_hist e_set_times e_uuid e_data e_times].
    + split; [discriminate|]. intros [H|[H|[l [t' [H D]]]]]; try discriminate.
      injection H as -> ->. apply entry_eqb_eq in E. contradiction.
    + split; [|reflexivity]. intros _. right. right. exists last, tl. split; [reflexivity|].
      apply entry_eqb_neq in E. exact E.
  - cbn. split; auto.
Qed.

(* When it adds: the newest item is the entry itself without its history, carrying the new
   modification time; the older items are the old list, unchanged; uuid/data/other times untouched. *)
Theorem commit_added now e :
  snd (update_history now e) = true ->
  let e' := fst (update_history now e) in
  let item := mkEntry (e_uuid e) (e_data e) (set_lm (e_times e) now) None in
  e_hist e' = Some (item :: hist_list e)
  /\ strip e' = item
  /\ e_uuid e' = e_uuid e /\ e_data e' = e_data e
  /\ e_times e' = set_lm (e_times e) now.
Proof.
  destruct e as [u d t h]. unfold update_history, hist_list. cbn [e_hist].
  destruct h as [[|last tl]|]; cbn [e_set_hist e_hist e_uuid e_data e_times has_uncommitted_changes negb snd fst].
  - intros _. cbn. auto.
  - destruct (entry_eqb _ _) eqn:E; cbn [negb snd fst]; [discriminate|]. intros _. cbn. auto.
  - intros _. cbn. auto.
Qed.

(* When it does not add, nothing at all changes - the modification time included. *)
Theorem commit_noop now e :
  snd (update_history now e) = false -> fst (update_history now e) = e.
Proof.
  destruct e as [u d t h]. unfold update_history. cbn [e_hist].
  destruct h as [[|last tl]|]; cbn [e_set_hist e_hist e_uuid e_data e_times has_uncommitted_changes negb snd fst].
  - cbn. discriminate.
  - destruct (entry_eqb _ _) eqn:E; cbn [negb snd fst]; [reflexivity|discriminate].
  - cbn. discriminate.
Qed.

(* A second commit right after a commit adds nothing. *)
Theorem commit_twice now now' e :
  snd (update_history now' (fst (update_history now e))) = false.
Proof.
  destruct (snd (update_history now e)) eqn:F.
  - pose proof (commit_added now e F) as (Hh & Hs & Hu & Hd & Ht). cbn zeta in *.
    destruct (snd (update_history now' (fst (update_history now e)))) eqn:G; [|reflexivity].
    apply commit_adds_iff in G. rewrite Hh in G.
    destruct G as [G|[G|[l [t [G D]]]]]; try discriminate.
    injection G as <- _. exfalso. apply D. apply sanitize_eq_iff. rewrite Hu, Hd. cbn. auto.
  - rewrite (commit_noop now e F).
    destruct (snd (update_history now' e)) eqn:G; [|reflexivity].
    apply commit_adds_iff in G.
    assert (F' : snd (update_history now e) <> true) by congruence.
    exfalso. apply F'. apply commit_adds_iff. exact G.
Qed.

(* ---------- invariants over operation sequences ---------- *)

Definition no_nesting (e : entry) : Prop := Forall (fun h => e_hist h = None) (hist_list e).

Lemma update_history_hist now e :
  hist_list (fst (update_history now e)) = hist_list e \/
  hist_list (fst (update_history now e)) =
    mkEntry (e_uuid e) (e_data e) (set_lm (e_times e) now) None :: hist_list e.
Proof.
  destruct (snd (update_history now e)) eqn:F.
  - right. pose proof (commit_added now e F) as (Hh & _). cbn zeta in Hh.
    unfold hist_list at 1. rewrite Hh. reflexivity.
  - left. rewrite (commit_noop now e F). reflexivity.
Qed.

(* each operation leaves the old items alone and adds at most one item, in front *)
Lemma apply_hop_prefix e o :
  exists pre, hist_list (apply_hop e o) = pre ++ hist_list e /\ length pre <= 1
              /\ Forall (fun h => e_hist h = None) pre.
Proof.
  destruct o as [d|r|t|now|x]; cbn [apply_hop].
  - exists []. destruct e; cbn; auto.
  - exists []. destruct e; cbn; auto.
  - exists []. destruct e; cbn; auto.
  - destruct (update_history_hist now e) as [H|H]; rewrite H.
    + exists []. cbn; auto.
    + eexists [_]. cbn [app length]. split; [reflexivity|]. split; [lia|]. constructor; [reflexivity|constructor].
  - exists [strip x]. destruct e as [u d t [h|]]; cbn; (split; [reflexivity|]); (split; [lia|]);
      (constructor; [destruct x; reflexivity|constructor]).
Qed.

Theorem no_nesting_step e o : no_nesting e -> no_nesting (apply_hop e o).
Proof.
  unfold no_nesting. intro H. destruct (apply_hop_prefix e o) as [pre [E [_ P]]].
  rewrite E. apply Forall_app. auto.
Qed.

Theorem no_nesting_inv e ops : no_nesting e -> no_nesting (run_hops e ops).
Proof.
  unfold run_hops. revert e. induction ops as [|o ops IH]; intros e H; [exact H|].
  cbn [fold_left]. apply IH. apply no_nesting_step. exact H.
Qed.

(* whatever an externally supplied item carries, it is stored without a history of its own *)
Theorem add_external_strips e x :
  exists tl, hist_list (apply_hop e (OpAddExternal x)) = mkEntry (e_uuid x) (e_data x) (e_times x) None :: tl
             /\ tl = hist_list e.
Proof. destruct e as [u d t [h|]], x as [xu xd xt xh]; cbn; eexists; split; reflexivity. Qed.

(* earlier items are never altered or dropped; new items go in front *)
Theorem history_grows_in_front e ops :
  exists pre, hist_list (run_hops e ops) = pre ++ hist_list e /\ length pre <= length ops.
Proof.
  unfold run_hops. revert e. induction ops as [|o ops IH]; intro e.
  - exists []. cbn. auto.
  - cbn [fold_left]. destruct (IH (apply_hop e o)) as [pre [E L]].
    destruct (apply_hop_prefix e o) as [p1 [E1 [L1 _]]].
    exists (pre ++ p1). rewrite E, E1, app_assoc. split; [reflexivity|].
    rewrite app_length. cbn [length]. lia.
Qed.

(* the modification time moves only when a commit adds an item, and then to "now" *)
Theorem lm_changes_only_on_commit e o :
  t_lm (e_times (apply_hop e o)) = t_lm (e_times e) \/
  exists now, o = OpCommit now /\ snd (update_history now e) = true
              /\ t_lm (e_times (apply_hop e o)) = Some now.
Proof.
  destruct o as [d|r|t|now|x]; cbn [apply_hop]; try (left; destruct e; reflexivity).
  destruct (snd (update_history now e)) eqn:F.
  - right. exists now. pose proof (commit_added now e F) as (_ & _ & _ & _ & Ht). cbn zeta in Ht.
    rewrite Ht. auto.
  - left. rewrite (commit_noop now e F). reflexivity.
Qed.

(* Proofs for C19. *)
From Coq Require Import Lia ZifyN ZifyBool ZifyNat.
From KP Require Import Bytes Outcome LE LEFacts Otp.
Local Open Scope N_scope.
Ltac Zify.zify_post_hook ::= Z.div_mod_to_equations.

Definition byte_ok (b : N) : Prop := b < 256.
Definition all_bytes (l : bytes) : Prop := Forall byte_ok l.

(* ---------- list plumbing ---------- *)

Lemma rev_last_cons (h : bytes) : h <> [] -> exists r, rev h = last h 0 :: r.
Proof.
  induction h as [|x t IH]; intro Hne; [contradiction|].
  destruct t as [|y t'].
  - exists []. reflexivity.
  - destruct IH as [r Hr]; [discriminate|]. cbn [rev] in *. rewrite Hr. exists (r ++ [x]). reflexivity.
Qed.

Lemma drop_four (off : nat) (h : bytes) :
  (off + 4 <= length h)%nat ->
  exists a b c d rest, drop off h = a :: b :: c :: d :: rest
    /\ nth_error h off = Some a /\ nth_error h (off + 1) = Some b
    /\ nth_error h (off + 2) = Some c /\ nth_error h (off + 3) = Some d.
Proof.
  revert h. induction off as [|k IH]; intros h H.
  - destruct h as [|a [|b [|c [|d rest]]]]; cbn [length] in H; try lia.
    exists a, b, c, d, rest. repeat split; reflexivity.
  - destruct h as [|x t]; cbn [length] in H; [lia|].
    destruct (IH t ltac:(lia)) as (a & b & c & d & rest & E & H0 & H1 & H2 & H3).
    exists a, b, c, d, rest. cbn [drop Nat.add nth_error]. auto.
Qed.

Lemma Forall_drop (P : N -> Prop) n (l : bytes) : Forall P l -> Forall P (drop n l).
Proof.
  revert l. induction n as [|k IH]; intros l H; [exact H|].
  destruct l as [|x r]; [exact H|]. cbn [drop]. apply IH. inversion H; assumption.
Qed.

(* ---------- dynamic truncation = RFC 4226 DT ---------- *)

Lemma trunc_arith a b c d :
  a < 256 -> b < 256 -> c < 256 -> d < 256 ->
  (d + 256 * (c + 256 * (b + 256 * (a + 256 * 0)))) mod 2 ^ 31 =
  (a mod 128) * 2 ^ 24 + b * 2 ^ 16 + c * 2 ^ 8 + d.
Proof.
  intros Ha Hb Hc Hd.
  change (2 ^ 31) with 2147483648. change (2 ^ 24) with 16777216. change (2 ^ 16) with 65536. change (2 ^ 8) with 256.
  lia.
Qed.

Theorem dyn_trunc_is_rfc_dt (h : bytes) :
  all_bytes h -> (20 <= length h)%nat -> dyn_trunc h = Some (rfc_dt h).
Proof.
  intros Hb Hl. unfold dyn_trunc, rfc_dt.
  destruct (rev_last_cons h) as [r Hr]; [destruct h; [cbn in Hl; lia|discriminate]|].
  rewrite Hr. set (off := N.to_nat (last h 0 mod 16)).
  assert (Hoff : (off <= 15)%nat) by (subst off; lia).
  destruct (drop_four off h ltac:(lia)) as (a & b & c & d & rest & E & H0 & H1 & H2 & H3).
  rewrite H0, H1, H2, H3, E. cbn [take]. unfold be_dec. cbn [rev app le_dec].
  pose proof (Forall_drop byte_ok off h Hb) as Hd. rewrite E in Hd.
  inversion Hd as [|? ? Ha Hd1]; subst. inversion Hd1 as [|? ? Hb' Hd2]; subst.
  inversion Hd2 as [|? ? Hc Hd3]; subst. inversion Hd3 as [|? ? Hd' _]; subst.
  unfold byte_ok in *. rewrite trunc_arith by assumption. reflexivity.
Qed.

(* ---------- the generated code equals the RFC 6238 value ---------- *)

Lemma pow10_19 : 10 ^ 19 < 2 ^ 64.
Proof. vm_compute. reflexivity. Qed.

Lemma pow10_small digits : digits <= 19 -> 10 ^ digits < 2 ^ 64.
Proof.
  intro H. eapply N.le_lt_trans; [|exact pow10_19]. apply N.pow_le_mono_r; lia.
Qed.

Section refine.
  Variable mac : otp_alg -> bytes -> bytes -> bytes.
  (* what HMAC-SHA1 / -SHA256 / -SHA512 provide: at least 20 bytes of output *)
  Hypothesis mac_ok : forall alg k m, all_bytes (mac alg k m) /\ (20 <= length (mac alg k m))%nat.

  Theorem totp_refines_rfc alg step digits secret time :
    1 <= step -> digits <= 19 -> time < 2 ^ 64 ->
    totp_custom mac alg step digits secret time =
    Ok (render_code digits (rfc_totp mac alg secret time step digits)).
  Proof.
    intros Hs Hd Ht. unfold totp_custom, rfc_totp, rfc_hotp.
    destruct (N.eqb_spec step 0) as [E|_]; [lia|].
    assert (Hq : (time / step) mod 2 ^ 64 = time / step).
    { apply N.mod_small. eapply N.le_lt_trans; [|exact Ht]. apply N.div_le_upper_bound; nia. }
    rewrite Hq.
    destruct (mac_ok alg secret (be_enc 8 (time / step))) as [Hb Hl].
    rewrite (dyn_trunc_is_rfc_dt _ Hb Hl).
    pose proof (pow10_small digits Hd) as Hp.
    destruct (N.leb_spec (2 ^ 64) (10 ^ digits)) as [L|_]; [lia|]. reflexivity.
  Qed.

  (* no panic for any secret, time and parameter set a parsed URI can carry with 1..19 digits *)
  Corollary value_at_total t time :
    1 <= o_period t -> o_digits t <= 19 -> time < 2 ^ 64 ->
    exists code, value_at mac t time = Ok (code, o_period t - time mod o_period t, o_period t).
  Proof.
    intros Hp Hd Ht. unfold value_at. rewrite totp_refines_rfc by assumption. eexists. reflexivity.
  Qed.
End refine.

(* ---------- shape of the code ---------- *)

Lemma render_fixed_length d v : length (render_fixed d v) = d.
Proof.
  revert v. induction d as [|k IH]; intro v; [reflexivity|].
  cbn [render_fixed]. rewrite app_length, IH. cbn. lia.
Qed.

Lemma render_fixed_digits d v : Forall (fun c => 48 <= c <= 57) (render_fixed d v).
Proof.
  revert v. induction d as [|k IH]; intro v; [constructor|].
  cbn [render_fixed]. apply Forall_app. split; [apply IH|]. constructor; [|constructor].
  pose proof (N.mod_lt v 10 ltac:(lia)). lia.
Qed.

(* value of a decimal digit string *)
Definition dec_value (l : bytes) : N := fold_left (fun acc c => acc * 10 + (c - 48)) l 0.

Lemma dec_value_app l c : dec_value (l ++ [c]) = dec_value l * 10 + (c - 48).
Proof. unfold dec_value. rewrite fold_left_app. reflexivity. Qed.

Lemma render_fixed_value d v : dec_value (render_fixed d v) = v mod 10 ^ N.of_nat d.
Proof.
  revert v. induction d as [|k IH]; intro v.
  - cbn. rewrite N.mod_1_r. reflexivity.
  - cbn [render_fixed]. rewrite dec_value_app, IH.
    rewrite Nat2N.inj_succ, N.pow_succ_r'.
    replace (48 + v mod 10 - 48) with (v mod 10) by lia.
    rewrite (N.mod_mul_r v 10 (10 ^ N.of_nat k)) by (try apply N.pow_nonzero; lia). lia.
Qed.

(* exactly `digits` decimal characters, zero padded, denoting the value *)
Theorem code_shape digits v :
  1 <= digits -> v < 10 ^ digits ->
  length (render_code digits v) = N.to_nat digits
  /\ Forall (fun c => 48 <= c <= 57) (render_code digits v)
  /\ dec_value (render_code digits v) = v.
Proof.
  intros Hd Hv. unfold render_code. destruct (N.eqb_spec digits 0) as [E|_]; [lia|].
  split; [apply render_fixed_length|]. split; [apply render_fixed_digits|].
  rewrite render_fixed_value, N2Nat.id. apply N.mod_small. exact Hv.
Qed.

(* remaining validity: between one second and the period, the full period exactly at a boundary *)
Theorem validity_window period time :
  1 <= period ->
  1 <= period - time mod period <= period
  /\ (period - time mod period = period <-> time mod period = 0).
Proof. intro Hp. pose proof (N.mod_lt time period ltac:(lia)). lia. Qed.

(* ---------- parsing ---------- *)

Section parse.
  Variable b32_decode : bytes -> option bytes.

  (* one iteration of the loop, per key *)
  Lemma step_secret a v r :
    otp_pairs a ((s_secret, v) :: r) = otp_pairs (mkAcc (Some v) (a_issuer a) (a_period a) (a_digits a) (a_alg a)) r.
  Proof. reflexivity. Qed.
  Lemma step_issuer a v r :
    otp_pairs a ((s_issuer, v) :: r) = otp_pairs (mkAcc (a_secret a) (Some v) (a_period a) (a_digits a) (a_alg a)) r.
  Proof. reflexivity. Qed.
  Lemma step_period a v r :
    otp_pairs a ((s_period, v) :: r) =
    match parse_nonzero_u64 v with
    | Some p => otp_pairs (mkAcc (a_secret a) (a_issuer a) p (a_digits a) (a_alg a)) r
    | None => Err EIntFormat
    end.
  Proof. reflexivity. Qed.
  Lemma step_digits a v r :
    otp_pairs a ((s_digits, v) :: r) =
    match parse_u32 v with
    | Some d => otp_pairs (mkAcc (a_secret a) (a_issuer a) (a_period a) d (a_alg a)) r
    | None => Err EIntFormat
    end.
  Proof. reflexivity. Qed.
  Lemma step_algorithm a v r :
    otp_pairs a ((s_algorithm, v) :: r) =
    match parse_alg v with
    | Some g => otp_pairs (mkAcc (a_secret a) (a_issuer a) (a_period a) (a_digits a) g) r
    | None => Err EBadAlgorithm
    end.
  Proof. reflexivity. Qed.
  Lemma step_unknown a k v r :
    bytes_eqb k s_secret = false -> bytes_eqb k s_issuer = false ->
    bytes_eqb k s_period = false -> bytes_eqb k s_digits = false ->
    bytes_eqb k s_algorithm = false ->
    otp_pairs a ((k, v) :: r) = otp_pairs a r.
  Proof. intros J1 J2 J3 J4 J5. cbn [otp_pairs]. rewrite J1, J2, J3, J4, J5. reflexivity. Qed.

  (* defaults: 30 s, SHA-1 (and 8 digits, which is what the code does) *)
  Theorem otp_parse_defaults path s sec :
    b32_decode s = Some sec ->
    otp_parse b32_decode s_otpauth path [(s_secret, s)] =
    Ok (mkTotp (trim_slashes path) None 30 8 ASha1 sec).
  Proof.
    intro H. unfold otp_parse. replace (negb (bytes_eqb s_otpauth s_otpauth)) with false by reflexivity.
    rewrite step_secret. cbn [otp_pairs a_secret a_issuer a_period a_digits a_alg]. rewrite H. reflexivity.
  Qed.

  (* all six fields are recovered, in any of the orders tried; unknown parameters are ignored *)
  Theorem otp_parse_fields path s sec iss p pv d dv a av junk_k junk_v :
    b32_decode s = Some sec ->
    parse_nonzero_u64 p = Some pv -> parse_u32 d = Some dv -> parse_alg a = Some av ->
    bytes_eqb junk_k s_secret = false -> bytes_eqb junk_k s_issuer = false ->
    bytes_eqb junk_k s_period = false -> bytes_eqb junk_k s_digits = false ->
    bytes_eqb junk_k s_algorithm = false ->
    otp_parse b32_decode s_otpauth path
      [(s_algorithm, a); (junk_k, junk_v); (s_digits, d); (s_secret, s); (s_period, p); (s_issuer, iss)] =
    Ok (mkTotp (trim_slashes path) (Some iss) pv dv av sec).
  Proof.
    intros Hs Hp Hd Ha J1 J2 J3 J4 J5. unfold otp_parse.
    replace (negb (bytes_eqb s_otpauth s_otpauth)) with false by reflexivity.
    rewrite step_algorithm, Ha, (step_unknown _ junk_k junk_v _ J1 J2 J3 J4 J5), step_digits, Hd,
      step_secret, step_period, Hp, step_issuer.
    cbn [otp_pairs a_secret a_issuer a_period a_digits a_alg]. rewrite Hs. reflexivity.
  Qed.

  (* a repeated parameter: the last occurrence wins *)
  Theorem otp_parse_last_wins path s1 s2 sec :
    b32_decode s2 = Some sec ->
    otp_parse b32_decode s_otpauth path [(s_secret, s1); (s_secret, s2)] =
    Ok (mkTotp (trim_slashes path) None 30 8 ASha1 sec).
  Proof.
    intro H. unfold otp_parse. replace (negb (bytes_eqb s_otpauth s_otpauth)) with false by reflexivity.
    rewrite !step_secret. cbn [otp_pairs a_secret a_issuer a_period a_digits a_alg]. rewrite H. reflexivity.
  Qed.

  Definition bad_pair (p : bytes * bytes) : Prop :=
    (fst p = s_period /\ parse_nonzero_u64 (snd p) = None)
    \/ (fst p = s_digits /\ parse_u32 (snd p) = None)
    \/ (fst p = s_algorithm /\ parse_alg (snd p) = None).

  Lemma otp_pairs_ok_or_err pairs : forall a,
    (exists a', otp_pairs a pairs = Ok a') \/ (exists e, otp_pairs a pairs = Err e).
  Proof.
    induction pairs as [|[k v] r IH]; intro a; cbn [otp_pairs]; [left; eexists; reflexivity|].
    destruct (bytes_eqb k s_secret); [apply IH|].
    destruct (bytes_eqb k s_issuer); [apply IH|].
    destruct (bytes_eqb k s_period).
    { destruct (parse_nonzero_u64 v); [apply IH|right; eexists; reflexivity]. }
    destruct (bytes_eqb k s_digits).
    { destruct (parse_u32 v); [apply IH|right; eexists; reflexivity]. }
    destruct (bytes_eqb k s_algorithm).
    { destruct (parse_alg v); [apply IH|right; eexists; reflexivity]. }
    apply IH.
  Qed.

  Lemma otp_pairs_bad pairs : Exists bad_pair pairs -> forall a, exists e, otp_pairs a pairs = Err e.
  Proof.
    induction 1 as [[k v] r Hb|[k v] r _ IH]; intro a; cbn [otp_pairs].
    - destruct Hb as [[Hk Hv]|[[Hk Hv]|[Hk Hv]]]; cbn [fst snd] in *; subst k; cbn; rewrite Hv; eexists; reflexivity.
    - destruct (bytes_eqb k s_secret); [apply IH|].
      destruct (bytes_eqb k s_issuer); [apply IH|].
      destruct (bytes_eqb k s_period).
      { destruct (parse_nonzero_u64 v); [apply IH|eexists; reflexivity]. }
      destruct (bytes_eqb k s_digits).
      { destruct (parse_u32 v); [apply IH|eexists; reflexivity]. }
      destruct (bytes_eqb k s_algorithm).
      { destruct (parse_alg v); [apply IH|eexists; reflexivity]. }
      apply IH.
  Qed.

  (* parsing never panics: the result is a TOTP or an error *)
  Theorem otp_parse_total scheme path pairs :
    (exists t, otp_parse b32_decode scheme path pairs = Ok t)
    \/ (exists e, otp_parse b32_decode scheme path pairs = Err e).
  Proof.
    unfold otp_parse. destruct (negb _); [right; eexists; reflexivity|].
    destruct (otp_pairs_ok_or_err pairs (mkAcc None None 30 8 ASha1)) as [[a' E]|[e E]]; rewrite E.
    - destruct (a_secret a'); [|right; eexists; reflexivity].
      destruct (b32_decode b); [left|right]; eexists; reflexivity.
    - right. eexists. reflexivity.
  Qed.

  (* malformed URIs are errors *)
  Theorem otp_malformed_errors scheme path pairs :
    (bytes_eqb scheme s_otpauth = false                         (* wrong scheme *)
     \/ Exists bad_pair pairs                                    (* bad number / zero period / unknown algorithm *)
     \/ (forall v, ~ In (s_secret, v) pairs)                     (* no secret *)
     \/ (forall v, In (s_secret, v) pairs -> b32_decode v = None)) (* bad base32 *)
    -> exists e, otp_parse b32_decode scheme path pairs = Err e.
  Proof.
    intros H. unfold otp_parse.
    destruct (bytes_eqb scheme s_otpauth) eqn:Es; cbn [negb]; [|eexists; reflexivity].
    destruct H as [H|[H|H]]; [discriminate| |].
    - destruct (otp_pairs_bad pairs H (mkAcc None None 30 8 ASha1)) as [e E]. rewrite E. eexists. reflexivity.
    - (* the secret recorded by the loop is a value of some (secret, v) pair *)
      assert (Hsec : forall ps a a', otp_pairs a ps = Ok a' ->
                a_secret a' = a_secret a \/ exists v, a_secret a' = Some v /\ In (s_secret, v) ps).
      { induction ps as [|[k v] r IH]; intros a a' E; cbn [otp_pairs] in E.
        - injection E as <-. left. reflexivity.
        - destruct (bytes_eqb k s_secret) eqn:Ek.
          + assert (k = s_secret).
            { clear - Ek. revert Ek. generalize s_secret. induction k as [|x k IHk]; intros [|y s] E; cbn in E; try discriminate; [reflexivity|].
              apply andb_prop in E as [E1 E2]. apply N.eqb_eq in E1. subst. f_equal. apply IHk. exact E2. }
            subst k. apply IH in E as [E|[v' [E1 E2]]]; cbn [a_secret] in *.
            * right. exists v. split; [exact E|left; reflexivity].
            * right. exists v'. split; [exact E1|right; exact E2].
          + assert (Hrec : forall a0, a_secret a0 = a_secret a -> otp_pairs a0 r = Ok a' ->
                      a_secret a' = a_secret a \/ exists v0, a_secret a' = Some v0 /\ In (s_secret, v0) ((k, v) :: r)).
            { intros a0 Ha0 E0. apply IH in E0 as [E0|[v' [E1 E2]]].
              - left. congruence.
              - right. exists v'. split; [exact E1|right; exact E2]. }
            destruct (bytes_eqb k s_issuer); [eapply Hrec; [|exact E]; reflexivity|].
            destruct (bytes_eqb k s_period).
            { destruct (parse_nonzero_u64 v); [eapply Hrec; [|exact E]; reflexivity|discriminate]. }
            destruct (bytes_eqb k s_digits).
            { destruct (parse_u32 v); [eapply Hrec; [|exact E]; reflexivity|discriminate]. }
            destruct (bytes_eqb k s_algorithm).
            { destruct (parse_alg v); [eapply Hrec; [|exact E]; reflexivity|discriminate]. }
            eapply Hrec; [|exact E]; reflexivity. }
      destruct (otp_pairs_ok_or_err pairs (mkAcc None None 30 8 ASha1)) as [[a' E]|[e E]]; rewrite E;
        [|eexists; reflexivity].
      destruct (Hsec _ _ _ E) as [Hn|[v [Hv Hin]]]; cbn [a_secret] in *.
      + rewrite Hn. eexists. reflexivity.
      + rewrite Hv. destruct H as [H|H].
        * exfalso. exact (H v Hin).
        * rewrite (H v Hin). eexists. reflexivity.
  Qed.

  (* a zero period is one of the bad pairs *)
  Lemma zero_period_bad v : parse_u64 v = Some 0 -> bad_pair (s_period, v).
  Proof. intro H. left. split; [reflexivity|]. unfold parse_nonzero_u64. cbn [snd]. rewrite H. reflexivity. Qed.
End parse.

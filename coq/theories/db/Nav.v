(* Model of tree traversal and path lookup (property C18).
   Mirrors src/db/node.rs (NodeIter::next), src/db/group.rs (get_internal, get_mut_internal,
   SearchField::matches with SearchField::Title, entries, groups) and src/db/entry.rs
   (Entry::get / get_title).  Executable, total; no proofs in this file. *)
From KP Require Import Bytes Utf8.

(* What an entry stores under the key "Title". *)
Inductive tval :=
| TNone                    (* no "Title" field *)
| TUnprot (s : bytes)      (* Value::Unprotected *)
| TProt (s : bytes)        (* Value::Protected  : visible iff valid UTF-8 *)
| TBytes (s : bytes).      (* Value::Bytes      : never visible as text *)

Inductive node :=
| NGroup (uuid : N) (name : bytes) (children : list node)
| NEntry (uuid : N) (title : tval).

Definition children_of (n : node) : list node :=
  match n with NGroup _ _ c => c | NEntry _ _ => [] end.
Definition uuid_of (n : node) : N :=
  match n with NGroup u _ _ => u | NEntry u _ => u end.
Definition is_group (n : node) : bool :=
  match n with NGroup _ _ _ => true | NEntry _ _ => false end.

(* Entry::get("Title") *)
Definition entry_title (t : tval) : option bytes :=
  match t with
  | TNone => None
  | TUnprot s => Some s
  | TProt s => if utf8_valid s then Some s else None
  | TBytes _ => None
  end.

(* the `title` computed in SearchField::matches *)
Definition title_of (n : node) : option bytes :=
  match n with
  | NGroup _ name _ => Some name
  | NEntry _ t => entry_title t
  end.

Definition matches (n : node) (v : bytes) : bool :=
  match title_of n with
  | Some t => bytes_eqb t v
  | None => false
  end.

(* ---------- iteration: the queue machine of NodeIter::next ---------- *)

Fixpoint size (n : node) : nat :=
  match n with
  | NEntry _ _ => 1
  | NGroup _ _ c => S ((fix sz (l : list node) : nat :=
                          match l with [] => 0 | x :: r => size x + sz r end) c)
  end.

Fixpoint iter_fuel (fuel : nat) (queue : list node) : list node :=
  match fuel with
  | O => []
  | S f =>
    match queue with
    | [] => []                                         (* pop_front()? *)
    | h :: q => h :: iter_fuel f (q ++ children_of h)  (* extend with children, yield head *)
    end
  end.

(* `group.iter()` : the queue starts with the group itself. *)
Definition iter (g : node) : list node := iter_fuel (size g) [g].

(* ---------- lookup ---------- *)

(* index of the first element satisfying p *)
Fixpoint find_idx {A} (p : A -> bool) (l : list A) : option nat :=
  match l with
  | [] => None
  | x :: r => if p x then Some O else option_map S (find_idx p r)
  end.

(* children.iter().find_map(|n| match n { Group(g) if matches(n, head) => Some(g), _ => None }) *)
Fixpoint find_group (head : bytes) (l : list node) : option (nat * list node) :=
  match l with
  | [] => None
  | x :: r =>
    match x with
    | NGroup _ _ c =>
      if matches x head then Some (O, c)
      else option_map (fun p => (S (fst p), snd p)) (find_group head r)
    | NEntry _ _ => option_map (fun p => (S (fst p), snd p)) (find_group head r)
    end
  end.

(* Group::get_internal with SearchField::Title, applied to a group with these children.
   Returns the index path of the designated node ([] = the group itself). *)
Fixpoint get_idx (path : list bytes) (children : list node) : option (list nat) :=
  match path with
  | [] => Some []
  | head :: tail =>
    match tail with
    | [] => option_map (fun i => [i]) (find_idx (fun n => matches n head) children)
    | _ :: _ =>
      match find_group head children with
      | Some (i, c) => option_map (cons i) (get_idx tail c)
      | None => None
      end
    end
  end.

(* get_mut_internal: `.iter_mut().filter(matches).map(as_mut).next()` for the last step,
   and a find_map that evaluates `matches` before looking at the node kind otherwise. *)
Fixpoint filter_idx {A} (p : A -> bool) (i : nat) (l : list A) : list nat :=
  match l with
  | [] => []
  | x :: r => if p x then i :: filter_idx p (S i) r else filter_idx p (S i) r
  end.

Fixpoint find_group_mut (head : bytes) (l : list node) : option (nat * list node) :=
  match l with
  | [] => None
  | x :: r =>
    let node_matches := matches x head in
    match x with
    | NGroup _ _ c =>
      if node_matches then Some (O, c)
      else option_map (fun p => (S (fst p), snd p)) (find_group_mut head r)
    | NEntry _ _ => option_map (fun p => (S (fst p), snd p)) (find_group_mut head r)
    end
  end.

Fixpoint get_mut_idx (path : list bytes) (children : list node) : option (list nat) :=
  match path with
  | [] => Some []
  | head :: tail =>
    match tail with
    | [] => option_map (fun i => [i]) (hd_error (filter_idx (fun n => matches n head) O children))
    | _ :: _ =>
      match find_group_mut head children with
      | Some (i, c) => option_map (cons i) (get_mut_idx tail c)
      | None => None
      end
    end
  end.

(* Follow an index path. *)
Fixpoint node_at (n : node) (p : list nat) : option node :=
  match p with
  | [] => Some n
  | i :: r =>
    match nth_error (children_of n) i with
    | Some c => node_at c r
    | None => None
    end
  end.

Definition get (path : list bytes) (g : node) : option node :=
  match get_idx path (children_of g) with
  | Some p => node_at g p
  | None => None
  end.
Definition get_mut (path : list bytes) (g : node) : option node :=
  match get_mut_idx path (children_of g) with
  | Some p => node_at g p
  | None => None
  end.

(* Group::entries / Group::groups *)
Definition entries (g : node) : list node := filter (fun n => negb (is_group n)) (children_of g).
Definition groups (g : node) : list node := filter is_group (children_of g).

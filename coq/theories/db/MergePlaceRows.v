(* The rows of a tree: for every node below the root, the UUID of the group whose child list
   contains it ("parent label") and the node's own fields (a group's info or an entry).

   [rows root] lists them depth first, in the order of [all_uuids].  With pairwise distinct UUIDs
   a UUID designates one row, so [rows] is the whole tree as a finite map
        UUID |-> (parent UUID, own fields).
   Every write of merge_group / merge_deletions is one of
     - one row replaced by a row with the same UUID (group update, entry update, relocation:
       a relocation changes the parent label and LocationChanged of ONE row - the rows of the
       moved node's descendants keep their label, because the moved group keeps its UUID),
     - one row added (creation),
     - one row removed (deletion of a leaf).
   [update_uuid_rows] is the one lemma about paths. *)
From Coq Require Import Permutation.
From KP Require Import Bytes Outcome Tree TreeFacts History Merge MergeProofs MergeLookup
     MergeTermination MergeUuids MergeSelf MergeUnique MergeLwwEntry MergeLwwFrame.
Local Open Scope N_scope.

(* ---------- rows ---------- *)

Inductive item := IG (i : ginfo) | IE (e : entry).

Definition item_of (n : node) : item := match n with NG i _ => IG i | NE e => IE e end.
Definition iu (it : item) : N := match it with IG i => gi_uuid i | IE e => e_uuid e end.
Definition item_times (it : item) : times := match it with IG i => gi_times i | IE e => e_times e end.

Definition row : Type := (N * item)%type.
Definition ru (r : row) : N := iu (snd r).

Fixpoint rows (n : node) : list row :=
  match n with
  | NE _ => []
  | NG i ch => flat_map (fun c => (gi_uuid i, item_of c) :: rows c) ch
  end.

(* a node with its parent label, and a child list under one label *)
Definition nrow (p : N) (c : node) : list row := (p, item_of c) :: rows c.
Definition crows (p : N) (l : list node) : list row := flat_map (nrow p) l.

Lemma rows_NG i ch : rows (NG i ch) = crows (gi_uuid i) ch.
Proof. reflexivity. Qed.

Lemma rows_children n : rows n = crows (uuid_of n) (children_of n).
Proof. destruct n; reflexivity. Qed.

Lemma crows_cons p x r : crows p (x :: r) = nrow p x ++ crows p r.
Proof. reflexivity. Qed.

Lemma crows_app p a b : crows p (a ++ b) = crows p a ++ crows p b.
Proof. apply flat_map_app. Qed.

Lemma crows_single p x : crows p [x] = nrow p x.
Proof. unfold crows. cbn [flat_map]. apply app_nil_r. Qed.

Lemma iu_item_of n : iu (item_of n) = uuid_of n.
Proof. destruct n; reflexivity. Qed.

(* the UUIDs of the rows are the UUIDs of the tree, in the same order *)
Lemma rows_uuids : forall n, map ru (rows n) = all_uuids n.
Proof.
  induction n as [e|i ch IH] using node_ind'; [reflexivity|].
  cbn [rows all_uuids]. induction IH as [|x r Hx _ IHr]; [reflexivity|].
  cbn [flat_map map app]. rewrite map_app.
  f_equal; [unfold ru; cbn [snd]; apply iu_item_of|f_equal; [exact Hx|exact IHr]].
Qed.

Lemma row_uuid_in n r : In r (rows n) -> In (ru r) (all_uuids n).
Proof. intro H. rewrite <- rows_uuids. apply in_map. exact H. Qed.

Lemma uuid_row_in n u : In u (all_uuids n) -> exists r, In r (rows n) /\ ru r = u.
Proof. rewrite <- rows_uuids. intro H. apply in_map_iff in H as (r & E & Hr). exists r. auto. Qed.

Lemma row_unique n a b :
  NoDup (all_uuids n) -> In a (rows n) -> In b (rows n) -> ru a = ru b -> a = b.
Proof. rewrite <- rows_uuids. apply NoDup_map_inj. Qed.

Lemma in_crows p l r : In r (crows p l) <-> exists c, In c l /\ In r (nrow p c).
Proof. unfold crows. apply in_flat_map. Qed.

Lemma rows_of_node : forall root g, In g (all_nodes root) -> incl (rows g) (rows root).
Proof.
  induction root as [e|i ch IH] using node_ind'; intros g Hg; [destruct Hg|].
  cbn [all_nodes] in Hg. apply in_flat_map in Hg as (x & Hx & Hg). intros r Hr.
  rewrite rows_NG. apply in_crows. exists x. split; [exact Hx|]. right.
  destruct Hg as [<-|Hg]; [exact Hr|].
  exact (proj1 (Forall_forall _ _) IH x Hx g Hg r Hr).
Qed.

(* the label of a row is the UUID of the root or of a group that has a row itself *)
Lemma rows_parent_group : forall root p it,
  In (p, it) (rows root) ->
  p = uuid_of root \/ exists q i, In (q, IG i) (rows root) /\ gi_uuid i = p.
Proof.
  induction root as [e|i ch IH] using node_ind'; intros p it H; [destruct H|].
  rewrite rows_NG in H. apply in_crows in H as (c & Hc & [H|H]).
  - injection H as <- _. left. reflexivity.
  - right. destruct (proj1 (Forall_forall _ _) IH c Hc p it H) as [E|(q & j & Hq & Ej)].
    + destruct c as [ci cc|ce]; [|destruct H]. exists (gi_uuid i), ci. split; [|symmetry; exact E].
      rewrite rows_NG. apply in_crows. exists (NG ci cc). split; [exact Hc|left; reflexivity].
    + exists q, j. split; [|exact Ej]. rewrite rows_NG. apply in_crows. exists c. split; [exact Hc|right; exact Hq].
Qed.

(* ---------- the last element of a path, with the root's UUID as default ---------- *)

Lemma last_nonempty {A} : forall (q : list A) d d', q <> [] -> last q d = last q d'.
Proof.
  induction q as [|a q IH]; intros d d' Hq; [contradiction|].
  destruct q as [|b q]; [reflexivity|]. cbn [last]. apply IH. discriminate.
Qed.

Lemma last_cons_default {A} (h : A) q d : last (h :: q) d = last q h.
Proof.
  destruct q as [|b q]; [reflexivity|]. change (last (b :: q) d = last (b :: q) h).
  apply last_nonempty. discriminate.
Qed.

Lemma last_snoc {A} (q : list A) h d : last (q ++ [h]) d = h.
Proof. apply last_last. Qed.

Lemma last_opt_last q d : last q d = match last_opt q with Some p => p | None => d end.
Proof.
  unfold last_opt. induction q as [|a q IH]; [reflexivity|].
  destruct q as [|b q]; [reflexivity|]. cbn [last map] in *. exact IH.
Qed.

Lemma last_opt_eq_last a b d : optN_eqb (last_opt a) (last_opt b) = true -> last a d = last b d.
Proof.
  rewrite !last_opt_last. unfold optN_eqb.
  destruct (last_opt a), (last_opt b); cbn [option_eqb]; intro H; try discriminate; [|reflexivity].
  apply N.eqb_eq. exact H.
Qed.

Lemma list_eqb_N_eq : forall a b, path_eqb a b = true -> a = b.
Proof.
  unfold path_eqb. induction a as [|x a IH]; intros [|y b] H; cbn [list_eqb] in H; try discriminate; [reflexivity|].
  apply andb_true_iff in H as [E H]. apply N.eqb_eq in E. subst y. f_equal. apply IH. exact H.
Qed.

(* ---------- writing through a path ---------- *)

Lemma perm_ctx2 {A} (a b y x rest : list A) r :
  Permutation y (x ++ rest) -> Permutation (a ++ (r :: y) ++ b) (x ++ (a ++ r :: rest ++ b)).
Proof.
  intro P. replace (a ++ (r :: y) ++ b) with ((a ++ [r]) ++ y ++ b)
    by (rewrite <- app_assoc; reflexivity).
  replace (a ++ r :: rest ++ b) with ((a ++ [r]) ++ rest ++ b) by (rewrite <- app_assoc; reflexivity).
  apply perm_ctx. exact P.
Qed.

Lemma update_uuid_item : forall path f n n',
  path <> [] -> update_uuid path f n = Some n' -> item_of n' = item_of n.
Proof.
  intros [|h tail] f n n' Hp H; [contradiction|]. destruct n as [i ch|e]; [|discriminate].
  cbn [update_uuid] in H. destruct tail; destruct (update_first _ _ ch); try discriminate;
    injection H as <-; reflexivity.
Qed.

(* the designated node (with its label) replaced inside an unchanged context *)
Lemma update_uuid_rows : forall path f n n',
  path <> [] -> update_uuid path f n = Some n' ->
  exists g g' rest, get_uuid path n = Some g /\ f g = Some g'
    /\ Permutation (rows n) (nrow (last (removelast path) (uuid_of n)) g ++ rest)
    /\ Permutation (rows n') (nrow (last (removelast path) (uuid_of n)) g' ++ rest).
Proof.
  induction path as [|h tail IH]; intros f n n' Hp H; [contradiction|].
  destruct n as [i ch|e]; [|discriminate]. cbn [update_uuid] in H. destruct tail as [|k l].
  - destruct (update_first _ f ch) as [ch'|] eqn:E; [|discriminate]. injection H as <-.
    apply update_first_spec in E as (a & x & b & x' & -> & Hf & Hx & ->).
    exists x, x', (crows (gi_uuid i) a ++ crows (gi_uuid i) b).
    cbn [get_uuid children_of removelast last uuid_of]. split; [exact Hf|]. split; [exact Hx|].
    rewrite !rows_NG, !crows_app, !crows_cons. split; apply perm_mid.
  - destruct (update_first _ _ ch) as [ch'|] eqn:E; [|discriminate]. injection H as <-.
    apply update_first_spec in E as (a & x & b & x' & -> & Hf & Hx & ->).
    assert (Hkl : k :: l <> []) by discriminate.
    pose proof (update_uuid_item _ _ _ _ Hkl Hx) as Hit.
    assert (Hxu : uuid_of x = h).
    { apply find_some in Hf as [_ Hf]. apply andb_true_iff in Hf as [_ Hf]. apply N.eqb_eq. exact Hf. }
    apply IH in Hx as (g & g' & rest0 & Hg & Hfg & P1 & P2); [|exact Hkl].
    exists g, g', (crows (gi_uuid i) a ++ (gi_uuid i, item_of x) :: rest0 ++ crows (gi_uuid i) b).
    split; [|split; [exact Hfg|]].
    + rewrite get_uuid_cons2. cbn [children_of]. rewrite Hf. exact Hg.
    + assert (El : last (removelast (h :: k :: l)) (uuid_of (NG i (a ++ x :: b)))
                   = last (removelast (k :: l)) (uuid_of x)).
      { change (removelast (h :: k :: l)) with (h :: removelast (k :: l)).
        rewrite last_cons_default, Hxu. reflexivity. }
      rewrite El, !rows_NG, !crows_app, !crows_cons. unfold nrow at 1 3. rewrite Hit.
      split; apply perm_ctx2; assumption.
Qed.

Lemma snoc_cases {A} (l : list A) : l = [] \/ exists q h, l = q ++ [h].
Proof. induction l as [|x l _] using rev_ind; [left; reflexivity|right; exists l, x; reflexivity]. Qed.

Lemma find_group_label path root pi pc :
  find_group path root = Some (pi, pc) -> gi_uuid pi = last path (uuid_of root).
Proof.
  unfold find_group. destruct (get_uuid path root) as [[gi gc|e]|] eqn:E; try discriminate.
  intro H. injection H as -> ->. destruct (snoc_cases path) as [->|(q & h & ->)].
  - cbn [get_uuid] in E. injection E as ->. reflexivity.
  - rewrite last_snoc. apply get_uuid_last in E. exact E.
Qed.

(* the children of the group at [path] replaced, its own fields kept *)
Lemma put_group_children_rows path root pi pc c root' :
  find_group path root = Some (pi, pc) -> put_group path pi c root = Some root' ->
  exists rest, Permutation (rows root) (crows (gi_uuid pi) pc ++ rest)
            /\ Permutation (rows root') (crows (gi_uuid pi) c ++ rest).
Proof.
  unfold find_group, put_group. intros Hf Hp. destruct path as [|h t].
  - cbn [get_uuid update_uuid] in *. destruct root as [ri rc|e]; [|discriminate].
    injection Hf as -> ->. injection Hp as <-. exists []. rewrite !app_nil_r, !rows_NG.
    split; apply Permutation_refl.
  - apply update_uuid_rows in Hp as (g & g' & rest & Hg & Hfg & P1 & P2); [|discriminate].
    rewrite Hg in Hf. destruct g as [gi gc|e]; [|discriminate]. injection Hf as -> ->. injection Hfg as <-.
    unfold nrow in P1, P2. cbn [item_of] in P1, P2. rewrite rows_NG in P1, P2.
    eexists (_ :: rest). split.
    + etransitivity; [exact P1|]. cbn [app]. apply Permutation_middle.
    + etransitivity; [exact P2|]. cbn [app]. apply Permutation_middle.
Qed.

(* the own fields of the group at [path] replaced (same UUID), its children kept *)
Lemma put_group_info_rows path root i0 c0 i root' :
  path <> [] -> find_group path root = Some (i0, c0) -> put_group path i c0 root = Some root' ->
  gi_uuid i = gi_uuid i0 ->
  exists rest,
    Permutation (rows root) ((last (removelast path) (uuid_of root), IG i0) :: rest)
    /\ Permutation (rows root') ((last (removelast path) (uuid_of root), IG i) :: rest).
Proof.
  unfold find_group, put_group. intros Hne Hf Hp Hu.
  apply update_uuid_rows in Hp as (g & g' & rest & Hg & Hfg & P1 & P2); [|exact Hne].
  rewrite Hg in Hf. destruct g as [gi gc|e]; [|discriminate]. injection Hf as -> ->. injection Hfg as <-.
  unfold nrow in P1, P2. cbn [item_of] in P1, P2. rewrite rows_NG in P1, P2. rewrite Hu in P2.
  exists (crows (gi_uuid i0) c0 ++ rest). split; assumption.
Qed.

Lemma put_entry_rows p h e root root' :
  put_entry (p ++ [h]) e root = Some root' ->
  exists old rest, find_entry (p ++ [h]) root = Some old /\ e_uuid old = h
    /\ Permutation (rows root) ((last p (uuid_of root), IE old) :: rest)
    /\ Permutation (rows root') ((last p (uuid_of root), IE e) :: rest).
Proof.
  unfold put_entry, find_entry. intro H.
  apply update_uuid_rows in H as (g & g' & rest & Hg & Hfg & P1 & P2); [|apply snoc_not_nil].
  rewrite removelast_last in P1, P2.
  rewrite Hg. pose proof (get_uuid_last _ _ _ _ Hg) as Hu.
  destruct g as [gi gc|old]; [discriminate|]. injection Hfg as <-. exists old, rest.
  unfold nrow in P1, P2. cbn [item_of rows app] in P1, P2. auto.
Qed.

(* a child of the group found at a location has that group's UUID as label *)
Lemma find_group_rows loc root pi pc n :
  find_group loc root = Some (pi, pc) -> In n pc -> In (gi_uuid pi, item_of n) (rows root).
Proof.
  unfold find_group. destruct (get_uuid loc root) as [[gi gc|e]|] eqn:E; try discriminate.
  intros H Hn. injection H as -> ->.
  assert (Hself : In (gi_uuid pi, item_of n) (rows (NG pi pc))).
  { rewrite rows_NG. apply in_crows. exists n. split; [exact Hn|left; reflexivity]. }
  destruct loc as [|h t].
  - cbn [get_uuid] in E. injection E as ->. exact Hself.
  - apply get_uuid_nodes in E; [|discriminate]. exact (rows_of_node root _ E _ Hself).
Qed.

(* ---------- removing a node, moving a node ---------- *)

Lemma crows_partition p u l :
  Permutation (crows p (filter (fun c => negb (N.eqb (uuid_of c) u)) l)
               ++ crows p (filter (fun c => N.eqb (uuid_of c) u) l)) (crows p l).
Proof.
  induction l as [|x r IH]; [constructor|]. cbn [filter]. destruct (N.eqb (uuid_of x) u); cbn [negb].
  - rewrite !crows_cons. etransitivity; [apply perm_mid|]. apply Permutation_app_head. exact IH.
  - rewrite !crows_cons, <- app_assoc. apply Permutation_app_head. exact IH.
Qed.

Lemma put_group_removed_rows loc root pi pc u nd kept root1 :
  find_group loc root = Some (pi, pc) -> remove_node u pc = Some (nd, kept) ->
  put_group loc pi kept root = Some root1 -> NoDup (all_uuids root) ->
  uuid_of nd = u /\ Permutation (rows root) (nrow (gi_uuid pi) nd ++ rows root1).
Proof.
  intros E1 E2 E3 Nd. destruct (put_group_removed _ _ _ _ _ _ _ _ E1 E2 E3) as [_ Hp].
  destruct (Hp Nd) as [HF _].
  assert (Hu : uuid_of nd = u).
  { assert (Hin : In nd (filter (fun c => N.eqb (uuid_of c) u) pc)) by (rewrite HF; left; reflexivity).
    apply filter_In in Hin as [_ Hin]. apply N.eqb_eq. exact Hin. }
  split; [exact Hu|].
  apply remove_node_filter in E2 as [_ ->].
  destruct (put_group_children_rows _ _ _ _ _ _ E1 E3) as (rest & P1 & P2).
  pose proof (crows_partition (gi_uuid pi) u pc) as Hpart. rewrite HF, crows_single in Hpart.
  rewrite P1, P2, <- Hpart, <- app_assoc. apply perm_mid.
Qed.

Definition ginfo_set_lc (i : ginfo) (t : Z) : ginfo := mkGinfo (gi_uuid i) (gi_data i) (set_lc (gi_times i) t).
Definition entry_set_lc (e : entry) (t : Z) : entry := e_set_times e (set_lc (e_times e) t).

Definition item_set_lc (it : item) (t : Z) : item :=
  match it with IG i => IG (ginfo_set_lc i t) | IE e => IE (entry_set_lc e t) end.

Lemma item_of_set_lc n t : item_of (node_set_lc n t) = item_set_lc (item_of n) t.
Proof. destruct n; reflexivity. Qed.

Lemma rows_set_lc n t : rows (node_set_lc n t) = rows n.
Proof. destruct n; reflexivity. Qed.

Lemma iu_set_lc it t : iu (item_set_lc it t) = iu it.
Proof. destruct it as [i|e]; [reflexivity|]. destruct e; reflexivity. Qed.

(* Database::relocate_node: ONE row changes - the label and LocationChanged of the moved node *)
Theorem relocate_node_rows u from to ts root root' :
  relocate_node u from to ts root = Ok root' -> NoDup (all_uuids root) ->
  exists it rest, iu it = u
    /\ Permutation (rows root) ((last from (uuid_of root), it) :: rest)
    /\ Permutation (rows root') ((last to (uuid_of root), item_set_lc it ts) :: rest).
Proof.
  unfold relocate_node. intros H Nd.
  destruct (find_group from root) as [[si sc]|] eqn:E1; cbn [of_option bind] in H; [|discriminate].
  destruct (remove_node u sc) as [[nd kept]|] eqn:E2; cbn [of_option bind] in H; [|discriminate].
  destruct (put_group from si kept root) as [root1|] eqn:E3; cbn [of_option bind] in H; [|discriminate].
  destruct (find_group to root1) as [[di dc]|] eqn:E4; cbn [of_option bind] in H; [|discriminate].
  destruct (put_group to di _ root1) as [root2|] eqn:E5; cbn [of_option] in H; [|discriminate].
  injection H as <-.
  destruct (put_group_removed_rows _ _ _ _ _ _ _ _ E1 E2 E3 Nd) as [Hu P].
  destruct (put_group_removed _ _ _ _ _ _ _ _ E1 E2 E3) as [Hr1 _].
  pose proof (find_group_label _ _ _ _ E1) as L1. pose proof (find_group_label _ _ _ _ E4) as L4.
  rewrite Hr1 in L4.
  exists (item_of nd), (rows nd ++ rows root1). split; [rewrite iu_item_of; exact Hu|].
  split; [rewrite <- L1; exact P|].
  destruct (put_group_children_rows _ _ _ _ _ _ E4 E5) as (rest & P1 & P2).
  rewrite P2, P1, crows_app, crows_single, <- app_assoc, <- L4. unfold nrow.
  rewrite item_of_set_lc, rows_set_lc.
  etransitivity; [apply perm_mid|]. cbn [app]. apply perm_skip. apply Permutation_refl.
Qed.

(* ---------- [only U a b]: rows whose UUID is outside U are the same in both trees ---------- *)

Definition only (U : list N) (a b : node) : Prop :=
  forall r, ~ In (ru r) U -> (In r (rows a) <-> In r (rows b)).

Lemma only_refl U a : only U a a.
Proof. intros r _. tauto. Qed.

Lemma only_sym U a b : only U a b -> only U b a.
Proof. intros H r Hr. symmetry. apply H. exact Hr. Qed.

Lemma only_mono U U' a b : incl U U' -> only U a b -> only U' a b.
Proof. intros Hi H r Hr. apply H. intro Hin. apply Hr. apply Hi. exact Hin. Qed.

Lemma only_trans U a b c : only U a b -> only U b c -> only U a c.
Proof. intros H1 H2 r Hr. rewrite (H1 r Hr). apply H2. exact Hr. Qed.

Lemma only_app U1 U2 a b c : only U1 a b -> only U2 b c -> only (U1 ++ U2) a c.
Proof.
  intros H1 H2. apply (only_trans _ a b c); [eapply only_mono; [|exact H1]|eapply only_mono; [|exact H2]].
  - apply incl_appl, incl_refl.
  - apply incl_appr, incl_refl.
Qed.

Lemma only_replace a b r0 r1 rest :
  Permutation (rows a) (r0 :: rest) -> Permutation (rows b) (r1 :: rest) -> ru r1 = ru r0 ->
  only [ru r0] a b.
Proof.
  intros Pa Pb E r Hr. split; intro H.
  - apply (Permutation_in _ (Permutation_sym Pb)). apply (Permutation_in _ Pa) in H.
    destruct H as [<-|H]; [exfalso; apply Hr; left; reflexivity|right; exact H].
  - apply (Permutation_in _ (Permutation_sym Pa)). apply (Permutation_in _ Pb) in H.
    destruct H as [<-|H]; [exfalso; apply Hr; left; symmetry; exact E|right; exact H].
Qed.

Lemma only_add a b r1 : Permutation (rows b) (r1 :: rows a) -> only [ru r1] a b.
Proof.
  intros Pb r Hr. split; intro H.
  - apply (Permutation_in _ (Permutation_sym Pb)). right. exact H.
  - apply (Permutation_in _ Pb) in H. destruct H as [<-|H]; [exfalso; apply Hr; left; reflexivity|exact H].
Qed.

Lemma only_perm U a b : Permutation (rows a) (rows b) -> only U a b.
Proof. intros P r _. split; apply Permutation_in; [exact P|symmetry; exact P]. Qed.

(* ---------- the state of a UUID in a tree: its row, or none ---------- *)

Definition ustate (u : N) (t : node) (o : option row) : Prop :=
  match o with
  | Some r => In r (rows t) /\ ru r = u
  | None => ~ In u (all_uuids t)
  end.

Lemma ustate_only U a b u o : only U a b -> ~ In u U -> ustate u a o -> ustate u b o.
Proof.
  intros Ho Hu. destruct o as [r|]; cbn [ustate].
  - intros [Hr E]. split; [|exact E]. apply Ho; [rewrite E; exact Hu|exact Hr].
  - intros Hn Hin. apply Hn. apply uuid_row_in in Hin as (r & Hr & E).
    rewrite <- E. apply row_uuid_in. apply (Ho r); [rewrite E; exact Hu|exact Hr].
Qed.

Lemma ustate_fun u t o1 o2 : NoDup (all_uuids t) -> ustate u t o1 -> ustate u t o2 -> o1 = o2.
Proof.
  intro Nd. destruct o1 as [r1|], o2 as [r2|]; cbn [ustate].
  - intros [H1 E1] [H2 E2]. f_equal. apply (row_unique t); [exact Nd|exact H1|exact H2|congruence].
  - intros [H1 E1] H2. exfalso. apply H2. rewrite <- E1. apply row_uuid_in. exact H1.
  - intros H1 [H2 E2]. exfalso. apply H1. rewrite <- E2. apply row_uuid_in. exact H2.
  - reflexivity.
Qed.

Lemma ustate_total u t : exists o, ustate u t o.
Proof.
  destruct (in_dec N.eq_dec u (all_uuids t)) as [Hin|Hn]; [|exists None; exact Hn].
  apply uuid_row_in in Hin as (r & Hr & E). exists (Some r). split; assumption.
Qed.

Lemma ustate_replace a b r0 r1 rest :
  Permutation (rows a) (r0 :: rest) -> Permutation (rows b) (r1 :: rest) ->
  ustate (ru r1) b (Some r1).
Proof. intros _ Pb. split; [|reflexivity]. apply (Permutation_in _ (Permutation_sym Pb)). left. reflexivity. Qed.

Lemma ustate_some_first a r0 rest u o :
  NoDup (all_uuids a) -> Permutation (rows a) (r0 :: rest) -> ru r0 = u -> ustate u a o -> o = Some r0.
Proof.
  intros Nd Pa E Ho. apply (ustate_fun u a); [exact Nd|exact Ho|]. split; [|exact E].
  apply (Permutation_in _ (Permutation_sym Pa)). left. reflexivity.
Qed.

(* lookup by UUID *)
Definition row_of (u : N) (root : node) : option row := find (fun r => N.eqb (ru r) u) (rows root).

Lemma row_of_ustate u root : ustate u root (row_of u root).
Proof.
  unfold row_of. destruct (find _ (rows root)) as [r|] eqn:E; cbn [ustate].
  - apply find_some in E as [Hr E]. apply N.eqb_eq in E. auto.
  - intro Hin. apply uuid_row_in in Hin as (r & Hr & Er).
    pose proof (find_none _ _ E r Hr) as F. cbv beta in F. rewrite Er, N.eqb_refl in F. discriminate.
Qed.

Lemma row_of_eq u root o : NoDup (all_uuids root) -> ustate u root o -> row_of u root = o.
Proof. intros Nd H. apply (ustate_fun u root); [exact Nd|apply row_of_ustate|exact H]. Qed.

(* ---------- a path written through stays readable ---------- *)

Lemma item_of_same a b : item_of a = item_of b -> uuid_of a = uuid_of b /\ is_group a = is_group b.
Proof. destruct a, b; cbn [item_of]; intro H; inversion H; auto. Qed.

Lemma update_first_find p f : forall l l',
  update_first p f l = Some l' ->
  exists x x', find p l = Some x /\ f x = Some x' /\ (p x' = true -> find p l' = Some x').
Proof.
  induction l as [|y r IH]; intros l' H; cbn [update_first find] in *; [discriminate|].
  destruct (p y) eqn:Py.
  - destruct (f y) as [y'|] eqn:Ey; [|discriminate]. injection H as <-.
    exists y, y'. split; [reflexivity|]. split; [exact Ey|]. intro Hp. cbn [find]. rewrite Hp. reflexivity.
  - destruct (update_first p f r) as [r'|]; [|discriminate]. injection H as <-.
    destruct (IH r' eq_refl) as (x & x' & Hf & Hx & Hp). exists x, x'. split; [exact Hf|]. split; [exact Hx|].
    intro Hpx. cbn [find]. rewrite Py. exact (Hp Hpx).
Qed.

Lemma update_uuid_get : forall path f n n',
  update_uuid path f n = Some n' ->
  exists g g', get_uuid path n = Some g /\ f g = Some g'
    /\ (uuid_of g' = uuid_of g -> get_uuid path n' = Some g').
Proof.
  induction path as [|h tail IH]; intros f n n' H.
  - cbn [update_uuid get_uuid] in *. exists n, n'. auto.
  - destruct n as [i ch|e]; [|discriminate]. cbn [update_uuid] in H. destruct tail as [|k l].
    + destruct (update_first _ f ch) as [ch'|] eqn:E; [|discriminate]. injection H as <-.
      apply update_first_find in E as (x & x' & Hf & Hx & Hp). exists x, x'.
      cbn [get_uuid children_of]. split; [exact Hf|]. split; [exact Hx|]. intro Hu. apply Hp.
      apply find_some in Hf as [_ Hf]. rewrite Hu. exact Hf.
    + destruct (update_first _ _ ch) as [ch'|] eqn:E; [|discriminate]. injection H as <-.
      apply update_first_find in E as (x & x' & Hf & Hx & Hp).
      assert (Hkl : k :: l <> []) by discriminate.
      destruct (item_of_same _ _ (update_uuid_item _ _ _ _ Hkl Hx)) as [Eu Eg].
      apply IH in Hx as (g & g' & Hg & Hfg & Himp). exists g, g'.
      rewrite !get_uuid_cons2. cbn [children_of]. rewrite Hf. split; [exact Hg|]. split; [exact Hfg|].
      intro Hu. rewrite Hp; [exact (Himp Hu)|]. apply find_some in Hf as [_ Hf]. rewrite Eu, Eg. exact Hf.
Qed.

Lemma put_group_get path root i0 c0 i c root' :
  find_group path root = Some (i0, c0) -> put_group path i c root = Some root' ->
  gi_uuid i = gi_uuid i0 -> get_uuid path root' = Some (NG i c).
Proof.
  unfold find_group, put_group. intros Hf Hp Hu.
  apply update_uuid_get in Hp as (g & g' & Hg & Hfg & Himp). rewrite Hg in Hf.
  destruct g as [gi gc|e]; [|discriminate]. injection Hf as -> ->. injection Hfg as <-.
  apply Himp. exact Hu.
Qed.

Lemma find_group_first a : forall l g,
  find (fun c => N.eqb (uuid_of c) a) l = Some g -> is_group g = true ->
  find (fun c => is_group c && N.eqb (uuid_of c) a) l = Some g.
Proof.
  induction l as [|y r IH]; intros g H Hg; cbn [find] in *; [discriminate|].
  destruct (N.eqb (uuid_of y) a).
  - injection H as ->. rewrite Hg. reflexivity.
  - rewrite andb_false_r. apply IH; assumption.
Qed.

Lemma get_uuid_snoc : forall p n i c h,
  get_uuid p n = Some (NG i c) -> get_uuid (p ++ [h]) n = find (fun x => N.eqb (uuid_of x) h) c.
Proof.
  induction p as [|a p IH]; intros n i c h H.
  - cbn [get_uuid] in H. injection H as ->. reflexivity.
  - destruct p as [|k l].
    + cbn [get_uuid] in H. change ([a] ++ [h]) with (a :: [h]). rewrite get_uuid_cons2.
      rewrite (find_group_first a _ _ H eq_refl). reflexivity.
    + rewrite get_uuid_cons2 in H. change ((a :: k :: l) ++ [h]) with (a :: k :: (l ++ [h])).
      rewrite get_uuid_cons2. destruct (find _ (children_of n)) as [g|]; [|discriminate].
      exact (IH g i c h H).
Qed.

Lemma find_not_none {A} (p : A -> bool) l x : In x l -> p x = true -> find p l <> None.
Proof. intros Hx Hp Hn. pose proof (find_none _ _ Hn x Hx) as F. congruence. Qed.

(* after a relocation the moved node is readable at its new path; after a creation, the new node *)
Lemma relocate_valid u from to ts root root' :
  relocate_node u from to ts root = Ok root' -> get_uuid (to ++ [u]) root' <> None.
Proof.
  unfold relocate_node. intro H.
  destruct (find_group from root) as [[si sc]|] eqn:E1; cbn [of_option bind] in H; [|discriminate].
  destruct (remove_node u sc) as [[nd kept]|] eqn:E2; cbn [of_option bind] in H; [|discriminate].
  destruct (put_group from si kept root) as [root1|] eqn:E3; cbn [of_option bind] in H; [|discriminate].
  destruct (find_group to root1) as [[di dc]|] eqn:E4; cbn [of_option bind] in H; [|discriminate].
  destruct (put_group to di _ root1) as [root2|] eqn:E5; cbn [of_option] in H; [|discriminate].
  injection H as <-. rewrite (get_uuid_snoc _ _ _ _ u (put_group_get _ _ _ _ _ _ _ E4 E5 eq_refl)).
  apply (find_not_none _ _ (node_set_lc nd ts)); [apply in_or_app; right; left; reflexivity|].
  rewrite node_set_lc_uuid. apply remove_node_filter in E2 as [Hin _]. apply filter_In in Hin as [_ Hin]. exact Hin.
Qed.

Lemma create_valid path root pi pc x root1 :
  find_group path root = Some (pi, pc) -> put_group path pi (pc ++ [x]) root = Some root1 ->
  get_uuid (path ++ [uuid_of x]) root1 <> None.
Proof.
  intros E1 E2. rewrite (get_uuid_snoc _ _ _ _ (uuid_of x) (put_group_get _ _ _ _ _ _ _ E1 E2 eq_refl)).
  apply (find_not_none _ _ x); [apply in_or_app; right; left; reflexivity|apply N.eqb_refl].
Qed.

(* an inner element of a readable path is the parent label of the next element's node *)
Lemma path_member_child : forall path n g u d,
  get_uuid path n = Some g -> In u path -> u <> last path d ->
  exists it, In (u, it) (rows n) /\ ((exists i, it = IG i) \/ iu it = last path d).
Proof.
  induction path as [|h tail IH]; intros n g u d H Hu Hne; [destruct Hu|].
  destruct tail as [|k l].
  - destruct Hu as [<-|[]]. contradiction Hne. reflexivity.
  - rewrite get_uuid_cons2 in H. destruct (find _ (children_of n)) as [x|] eqn:Ex; [|discriminate].
    pose proof (find_some _ _ Ex) as [Hx Px]. apply andb_true_iff in Px as [Gx Ux]. apply N.eqb_eq in Ux.
    assert (Hsub : incl (rows x) (rows n)).
    { intros r Hr. rewrite rows_children. apply in_crows. exists x. split; [exact Hx|right; exact Hr]. }
    change (last (h :: k :: l) d) with (last (k :: l) d) in *.
    destruct (N.eq_dec u h) as [->|Nh].
    + destruct l as [|k' l'].
      * cbn [get_uuid] in H. pose proof (find_some _ _ H) as [Hg Pg]. apply N.eqb_eq in Pg.
        exists (item_of g). split.
        -- apply Hsub. rewrite rows_children, Ux. apply in_crows. exists g. split; [exact Hg|left; reflexivity].
        -- right. rewrite iu_item_of. exact Pg.
      * rewrite get_uuid_cons2 in H. destruct (find _ (children_of x)) as [y|] eqn:Ey; [|discriminate].
        pose proof (find_some _ _ Ey) as [Hy Py]. apply andb_true_iff in Py as [Gy _].
        exists (item_of y). split.
        -- apply Hsub. rewrite rows_children, Ux. apply in_crows. exists y. split; [exact Hy|left; reflexivity].
        -- left. destruct y as [yi yc|ye]; [exists yi; reflexivity|discriminate].
    + destruct Hu as [E|Hu]; [congruence|].
      destruct (IH x g u d H Hu Hne) as (it & Hit & Hc). exists it. split; [apply Hsub; exact Hit|exact Hc].
Qed.

(* a group row somewhere means a group directly below the root *)
Lemma rows_group_top : forall root p g,
  In (p, IG g) (rows root) -> exists g0, In (uuid_of root, IG g0) (rows root).
Proof.
  intros [i ch|e] p g H; [|destruct H]. rewrite rows_NG in H. apply in_crows in H as (c & Hc & [H|H]).
  - injection H as <- Hg. exists g. rewrite rows_NG. apply in_crows. exists c. split; [exact Hc|].
    left. rewrite Hg. reflexivity.
  - destruct c as [ci cc|ce]; [|destruct H]. exists ci. rewrite rows_NG. apply in_crows.
    exists (NG ci cc). split; [exact Hc|left; reflexivity].
Qed.

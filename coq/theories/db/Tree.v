(* Object model shared by entry history (C17) and merge (C13-C16).
   An entry/group keeps its UUID, its two merge-relevant time stamps and, collapsed to one number
   each, (a) every other field ("data": the harness interns the canonical print of those fields
   injectively) and (b) the rest of the Times record (expires, usage count, other time stamps).
   The merge and history code only ever copies or compares those blocks as a whole. *)
From KP Require Import Bytes.
Local Open Scope N_scope.

Record times := mkTimes { t_lm : option Z;   (* LastModificationTime *)
                          t_lc : option Z;   (* LocationChanged *)
                          t_rest : N }.      (* everything else in Times; 0 = Times::default() rest *)

Definition times_default : times := mkTimes None None 0.

Definition optz_eqb (a b : option Z) : bool := option_eqb Z.eqb a b.
Definition times_eqb (a b : times) : bool :=
  optz_eqb (t_lm a) (t_lm b) && optz_eqb (t_lc a) (t_lc b) && N.eqb (t_rest a) (t_rest b).

Definition set_lm (t : times) (v : Z) : times := mkTimes (Some v) (t_lc t) (t_rest t).
Definition set_lc (t : times) (v : Z) : times := mkTimes (t_lm t) (Some v) (t_rest t).

Inductive entry :=
  mkEntry (uuid : N) (data : N) (t : times) (hist : option (list entry)).

Definition e_uuid (e : entry) := let 'mkEntry u _ _ _ := e in u.
Definition e_data (e : entry) := let 'mkEntry _ d _ _ := e in d.
Definition e_times (e : entry) := let 'mkEntry _ _ t _ := e in t.
Definition e_hist (e : entry) := let 'mkEntry _ _ _ h := e in h.

Definition e_set_times (e : entry) (t : times) : entry := mkEntry (e_uuid e) (e_data e) t (e_hist e).
Definition e_set_hist (e : entry) (h : option (list entry)) : entry := mkEntry (e_uuid e) (e_data e) (e_times e) h.
Definition e_set_data (e : entry) (d : N) : entry := mkEntry (e_uuid e) d (e_times e) (e_hist e).

(* derived PartialEq on Entry *)
Fixpoint entry_eqb (a b : entry) : bool :=
  match a, b with
  | mkEntry u1 d1 t1 h1, mkEntry u2 d2 t2 h2 =>
    N.eqb u1 u2 && N.eqb d1 d2 && times_eqb t1 t2 &&
    match h1, h2 with
    | None, None => true
    | Some l1, Some l2 =>
      (fix leq (l1 l2 : list entry) : bool :=
         match l1, l2 with
         | [], [] => true
         | x :: r, y :: s => entry_eqb x y && leq r s
         | _, _ => false
         end) l1 l2
    | _, _ => false
    end
  end.

Record ginfo := mkGinfo { gi_uuid : N; gi_data : N; gi_times : times }.

Inductive node :=
| NG (i : ginfo) (children : list node)
| NE (e : entry).

Definition uuid_of (n : node) : N := match n with NG i _ => gi_uuid i | NE e => e_uuid e end.
Definition is_group (n : node) : bool := match n with NG _ _ => true | NE _ => false end.
Definition children_of (n : node) : list node := match n with NG _ c => c | NE _ => [] end.

Definition ginfo_eqb (a b : ginfo) : bool :=
  N.eqb (gi_uuid a) (gi_uuid b) && N.eqb (gi_data a) (gi_data b) && times_eqb (gi_times a) (gi_times b).

Fixpoint node_eqb (a b : node) : bool :=
  match a, b with
  | NE x, NE y => entry_eqb x y
  | NG i c, NG j d =>
    ginfo_eqb i j &&
    (fix leq (l1 l2 : list node) : bool :=
       match l1, l2 with
       | [], [] => true
       | x :: r, y :: s => node_eqb x y && leq r s
       | _, _ => false
       end) c d
  | _, _ => false
  end.

(* DeletedObject *)
Record dobj := mkDobj { d_uuid : N; d_time : Z }.

(* The part of Database that merge touches: the root group and the deleted-object list. *)
Record db := mkDb { db_root_info : ginfo; db_children : list node; db_deleted : list dobj }.
Definition db_root (d : db) : node := NG (db_root_info d) (db_children d).

(* DeletedObjects::contains *)
Definition deleted_contains (l : list dobj) (u : N) : bool := existsb (fun o => N.eqb (d_uuid o) u) l.

(* The deletion phase of Database::merge as a whole (property "deletions").

   Main theorem ([merge_deletions_prune]): on a destination tree with pairwise distinct UUIDs,
   for a tree of any size and depth and a source tombstone list of any length, order and
   multiplicity,
       merge_deletions now root deleted src = Ok (root', deleted', lg)  ->  root' = prune root
   where [prune] (MergeDelTree.v) removes exactly the [doomed] nodes, and [doomed] is a recursive
   function over the tree that knows nothing of the two loops and of the work queue.
   Consequences: the per-UUID rule ([deletions_rule]), order independence of the resulting
   tree ([merge_deletions_order_independent]), the entry rule, the group rule, survivors,
   what is recorded in the tombstone list and in the log. *)
From Coq Require Import Permutation.
From KP Require Import Bytes Outcome Tree TreeFacts History Merge MergeProofs MergeLookup
     MergeTermination MergeDelTree.
Local Open Scope N_scope.

(* ---------- the two step functions, without paths ---------- *)

Definition estep (now : Z) (st : dstate) (o : dobj) : dstate :=
  if deleted_contains (ds_deleted st) (d_uuid o) then st
  else match lookup (d_uuid o) (ds_root st) with
       | Some (NE e) =>
         if Z.ltb (fst (lm_or (e_times e) now)) (d_time o)
         then mkDstate (tfilter (kf (d_uuid o)) (ds_root st)) (ds_deleted st ++ [o])
                       (ds_log st ++ snd (lm_or (e_times e) now) ++ [Ev EntryDeleted (d_uuid o)])
         else mkDstate (ds_root st) (ds_deleted st) (ds_log st ++ snd (lm_or (e_times e) now))
       | _ => st
       end.

Lemma del_entry_step_eq now st o :
  uuids_unique (children_of (ds_root st)) -> del_entry_step now st o = Ok (estep now st o).
Proof.
  intro Nd. unfold del_entry_step, estep.
  destruct (deleted_contains _ _); [reflexivity|].
  pose proof (locate_remove (d_uuid o) (ds_root st) Nd) as L.
  destruct (fnl_db _ _) as [loc|].
  - destruct L as (pi & pc & n & nd & Hf & Hfi & Hl & Hr & Hp).
    rewrite Hf, Hl. cbn [of_option bind]. rewrite Hfi.
    destruct n as [gi gc|e]; [reflexivity|].
    destruct (lm_or (e_times e) now) as [lm w]. cbn [fst snd].
    destruct (Z.ltb lm (d_time o)); [|reflexivity].
    rewrite Hr. cbn [of_option bind]. rewrite Hp. reflexivity.
  - rewrite L. reflexivity.
Qed.

Definition gstep (now : Z) (st : dstate) (o : dobj) (q : list dobj) : dstate * list dobj :=
  if deleted_contains (ds_deleted st) (d_uuid o) then (st, q)
  else match lookup (d_uuid o) (ds_root st) with
       | Some (NG gi gc) =>
         if existsb (fun c => negb (is_group c)) gc then (st, q)
         else if existsb (fun c => is_group c && in_queue (uuid_of c) q) gc then (st, q ++ [o])
         else if existsb is_group gc then (st, q)
         else if Z.ltb (fst (lm_or (gi_times gi) now)) (d_time o)
         then (mkDstate (tfilter (kf (d_uuid o)) (ds_root st)) (ds_deleted st ++ [o])
                        (ds_log st ++ snd (lm_or (gi_times gi) now) ++ [Ev GroupDeleted (d_uuid o)]), q)
         else (mkDstate (ds_root st) (ds_deleted st) (ds_log st ++ snd (lm_or (gi_times gi) now)), q)
       | _ => (st, q)
       end.

Lemma del_group_step_eq now st o q :
  uuids_unique (children_of (ds_root st)) -> del_group_step now st o q = Ok (gstep now st o q).
Proof.
  intro Nd. unfold del_group_step, gstep.
  destruct (deleted_contains _ _); [reflexivity|].
  pose proof (locate_remove (d_uuid o) (ds_root st) Nd) as L.
  destruct (fnl_db _ _) as [loc|].
  - destruct L as (pi & pc & n & nd & Hf & Hfi & Hl & Hr & Hp).
    rewrite Hf, Hl. cbn [of_option bind]. rewrite Hfi.
    destruct n as [gi gc|e]; [|reflexivity].
    destruct (existsb (fun c => negb (is_group c)) gc); [reflexivity|].
    destruct (existsb (fun c => is_group c && in_queue (uuid_of c) q) gc); [reflexivity|].
    destruct (existsb is_group gc); [reflexivity|].
    destruct (lm_or (gi_times gi) now) as [lm w]. cbn [fst snd].
    destruct (Z.ltb lm (d_time o)); [|reflexivity].
    rewrite Hr. cbn [of_option bind]. rewrite Hp. reflexivity.
  - rewrite L. reflexivity.
Qed.

Lemma deleted_contains_app a b u :
  deleted_contains (a ++ b) u = deleted_contains a u || deleted_contains b u.
Proof. apply existsb_app. Qed.

Lemma no_children gc :
  existsb (fun c => negb (is_group c)) gc = false -> existsb is_group gc = false -> gc = [].
Proof.
  destruct gc as [|c r]; [reflexivity|]. cbn [existsb].
  destruct (is_group c); cbn [negb orb]; intros H1 H2; discriminate.
Qed.

(* ---------- the invariant of both loops ---------- *)

Section Phase.
  Variable now : Z.
  Variable deleted : list dobj.
  Variable src : list dobj.
  Variable R : node.

  Local Notation dm := (doomed now deleted src).
  Local Notation pr := (prune now deleted src).

  (* tombstones recorded so far: their nodes are no longer in the tree *)
  Definition added_ok (st : dstate) : Prop :=
    exists added, ds_deleted st = deleted ++ added
      /\ forall o, In o added -> ~ In (d_uuid o) (all_uuids (ds_root st)).

  Record inv (st : dstate) : Prop := mkInv {
    inv_uniq : uuids_unique (children_of (ds_root st));
    inv_prune : pr (ds_root st) = pr R;      (* only doomed nodes have been taken out *)
    inv_added : added_ok st }.

  Lemma inv_contains st u :
    inv st -> In u (all_uuids (ds_root st)) ->
    deleted_contains (ds_deleted st) u = deleted_contains deleted u.
  Proof.
    intros [_ _ (added & E & Ha)] Hu. rewrite E, deleted_contains_app.
    destruct (deleted_contains added u) eqn:C; [|apply orb_false_r].
    exfalso. apply existsb_exists in C as (o & Ho & Eo). apply N.eqb_eq in Eo.
    apply (Ha o Ho). rewrite Eo. exact Hu.
  Qed.

  Lemma node_uuid_in T n : In n (all_nodes T) -> In (uuid_of n) (all_uuids T).
  Proof. intro H. rewrite all_uuids_nodes. apply in_map. exact H. Qed.

  Lemma doomed_live st n :
    inv st -> In n (all_nodes (ds_root st)) -> dm n = true ->
    deleted_contains (ds_deleted st) (uuid_of n) = false.
  Proof.
    intros I Hn D. rewrite (inv_contains st _ I (node_uuid_in _ _ Hn)).
    apply doomed_tomb in D. unfold tomb in D. apply andb_true_iff in D as [D _].
    apply negb_true_iff in D. exact D.
  Qed.

  (* a tombstone of the source, not in the destination, newer than the node: the node is
     tombstoned in the sense of [tomb] *)
  Lemma tomb_intro st n o :
    inv st -> In n (all_nodes (ds_root st)) -> In o src -> d_uuid o = uuid_of n ->
    deleted_contains (ds_deleted st) (d_uuid o) = false ->
    Z.ltb (fst (lm_or (node_times n) now)) (d_time o) = true ->
    tomb now deleted src (uuid_of n) (node_times n) = true.
  Proof.
    intros I Hn Ho Eu Ed Lt. unfold tomb. apply andb_true_iff. split.
    - rewrite Eu, (inv_contains st _ I (node_uuid_in _ _ Hn)) in Ed. rewrite Ed. reflexivity.
    - apply existsb_exists. exists o. split; [exact Ho|]. unfold eff. rewrite Eu, N.eqb_refl, Lt. reflexivity.
  Qed.

  Lemma inv_same st lg : inv st -> inv (mkDstate (ds_root st) (ds_deleted st) lg).
  Proof. intros [U P A]. constructor; assumption. Qed.

  Lemma inv_remove st o n lg :
    inv st -> lookup (d_uuid o) (ds_root st) = Some n -> dm n = true ->
    inv (mkDstate (tfilter (kf (d_uuid o)) (ds_root st)) (ds_deleted st ++ [o]) lg).
  Proof.
    intros [U P (added & E & Ha)] L D. apply lookup_some in L as [Hn Hu].
    constructor; cbn [ds_root ds_deleted].
    - apply tfilter_unique. exact U.
    - rewrite <- P. apply tfilter_doomed_prune. intros m Hm Em.
      rewrite (unique_node (ds_root st) m n U Hm Hn); [exact D|congruence].
    - exists (added ++ [o]). split; [rewrite E, app_assoc; reflexivity|].
      intros o' Ho' Hin. apply in_app_or in Ho' as [Ho'|[<-|[]]].
      + apply (Ha o' Ho'). apply (tfilter_uuids_incl _ _ _ Hin).
      + apply tfilter_kept_uuids in Hin. apply kf_true in Hin. apply Hin. reflexivity.
  Qed.

  (* ---------- first loop ---------- *)

  (* every doomed entry still in the tree has a newer tombstone in the rest of the list *)
  Definition entries_pending (l : list dobj) (T : node) : Prop :=
    forall e, In (NE e) (all_nodes T) -> dm (NE e) = true ->
              tomb_in now l (e_uuid e) (e_times e) = true.

  Lemma entries_pending_skip o l T :
    entries_pending (o :: l) T ->
    (forall e, In (NE e) (all_nodes T) -> dm (NE e) = true ->
               eff now (e_uuid e) (e_times e) o = true -> False) ->
    entries_pending l T.
  Proof.
    intros H Hs e He D. specialize (H e He D). unfold tomb_in in *. cbn [existsb] in H.
    destruct (eff now (e_uuid e) (e_times e) o) eqn:Ef; [exfalso; exact (Hs e He D Ef)|exact H].
  Qed.

  Lemma eff_uuid u t o : eff now u t o = true -> d_uuid o = u.
  Proof. unfold eff. intro H. apply andb_true_iff in H as [H _]. apply N.eqb_eq. exact H. Qed.

  Lemma eff_time u t o : eff now u t o = true -> Z.ltb (fst (lm_or t now)) (d_time o) = true.
  Proof. unfold eff. intro H. apply andb_true_iff in H as [_ H]. exact H. Qed.

  Lemma entry_of_tfilter k T e :
    In (NE e) (all_nodes (tfilter k T)) -> In (NE e) (all_nodes T) /\ k (e_uuid e) = true.
  Proof.
    intro H. apply all_nodes_tfilter in H as (n & Hn & E & K).
    destruct n as [i c|e0]; [rewrite tfilter_NG in E; discriminate|].
    rewrite tfilter_NE in E. injection E as ->. split; assumption.
  Qed.

  Lemma estep_inv st o l :
    inv st -> In o src -> entries_pending (o :: l) (ds_root st) ->
    inv (estep now st o) /\ entries_pending l (ds_root (estep now st o)).
  Proof.
    intros I Ho Pn. unfold estep.
    destruct (deleted_contains (ds_deleted st) (d_uuid o)) eqn:Ed.
    { split; [exact I|]. apply (entries_pending_skip o); [exact Pn|]. intros e He D Ef.
      apply eff_uuid in Ef. pose proof (doomed_live st _ I He D) as X. cbn [uuid_of] in X. congruence. }
    destruct (lookup (d_uuid o) (ds_root st)) as [[gi gc|e0]|] eqn:L.
    - split; [exact I|]. apply (entries_pending_skip o); [exact Pn|]. intros e He D Ef.
      apply eff_uuid in Ef. pose proof (lookup_in _ _ (inv_uniq st I) He) as X. cbn [uuid_of] in X. congruence.
    - destruct (Z.ltb (fst (lm_or (e_times e0) now)) (d_time o)) eqn:Lt.
      + pose proof (lookup_some _ _ _ L) as [Hn Hu].
        assert (D0 : dm (NE e0) = true).
        { cbn [doomed]. apply (tomb_intro st (NE e0) o I Hn Ho); [symmetry; exact Hu|exact Ed|exact Lt]. }
        split; [eapply inv_remove; eassumption|]. cbn [ds_root].
        intros e He D. apply entry_of_tfilter in He as [He K]. apply kf_true in K.
        specialize (Pn e He D). unfold tomb_in in *. cbn [existsb] in Pn.
        destruct (eff now (e_uuid e) (e_times e) o) eqn:Ef; [|exact Pn].
        apply eff_uuid in Ef. congruence.
      + split; [apply inv_same; exact I|]. cbn [ds_root].
        apply (entries_pending_skip o); [exact Pn|]. intros e He D Ef.
        pose proof (lookup_in _ _ (inv_uniq st I) He) as X. cbn [uuid_of] in X.
        rewrite <- (eff_uuid _ _ _ Ef), L in X. injection X as ->.
        apply eff_time in Ef. congruence.
    - split; [exact I|]. apply (entries_pending_skip o); [exact Pn|]. intros e He D Ef.
      apply eff_uuid in Ef. pose proof (lookup_in _ _ (inv_uniq st I) He) as X. cbn [uuid_of] in X. congruence.
  Qed.

  Lemma del_entries_inv : forall l st st',
    inv st -> incl l src -> entries_pending l (ds_root st) ->
    del_entries now st l = Ok st' ->
    inv st' /\ entries_pending [] (ds_root st').
  Proof.
    induction l as [|o r IH]; intros st st' I Hl Pn H; cbn [del_entries] in H.
    - injection H as <-. auto.
    - rewrite (del_entry_step_eq now st o (inv_uniq st I)) in H. cbn [bind] in H.
      destruct (estep_inv st o r I (Hl o (or_introl eq_refl)) Pn) as [I1 P1].
      apply (IH _ _ I1); [|exact P1|exact H]. intros x Hx. apply Hl. right. exact Hx.
  Qed.

  (* ---------- second loop ---------- *)

  Definition no_doomed_entry (T : node) : Prop :=
    forall e, In (NE e) (all_nodes T) -> dm (NE e) = false.

  (* every doomed group still in the tree has a newer tombstone in the queue *)
  Definition groups_pending (q : list dobj) (T : node) : Prop :=
    forall i c, In (NG i c) (all_nodes T) -> dm (NG i c) = true ->
                tomb_in now q (gi_uuid i) (gi_times i) = true.

  Lemma groups_pending_skip o q T :
    groups_pending (o :: q) T ->
    (forall i c, In (NG i c) (all_nodes T) -> dm (NG i c) = true ->
                 eff now (gi_uuid i) (gi_times i) o = true -> False) ->
    groups_pending q T.
  Proof.
    intros H Hs i c Hg D. specialize (H i c Hg D). unfold tomb_in in *. cbn [existsb] in H.
    destruct (eff now (gi_uuid i) (gi_times i) o) eqn:Ef; [exfalso; exact (Hs i c Hg D Ef)|exact H].
  Qed.

  Lemma groups_pending_requeue o q T : groups_pending (o :: q) T -> groups_pending (q ++ [o]) T.
  Proof.
    intros H i c Hg D. specialize (H i c Hg D). unfold tomb_in in *. rewrite existsb_app.
    cbn [existsb] in *. rewrite orb_false_r. rewrite orb_comm. exact H.
  Qed.

  Lemma groups_pending_remove o q T n :
    uuids_unique (children_of T) -> groups_pending (o :: q) T ->
    lookup (d_uuid o) T = Some n -> dm n = true ->
    groups_pending q (tfilter (kf (d_uuid o)) T).
  Proof.
    intros U H L Dn i c Hg D. apply lookup_some in L as [Hn Hu].
    apply all_nodes_tfilter in Hg as (m & Hm & E & K). apply kf_true in K.
    destruct m as [mi mc|me]; [|discriminate]. rewrite tfilter_NG in E. injection E as -> ->.
    assert (Dm : dm (NG mi mc) = true).
    { rewrite <- D, <- tfilter_NG. symmetry. apply tfilter_doomed_prune. intros m' Hm' Em'.
      apply (all_nodes_trans T _ Hm) in Hm'.
      rewrite (unique_node T m' n U Hm' Hn); [exact Dn|congruence]. }
    specialize (H mi mc Hm Dm). unfold tomb_in in *. cbn [existsb] in H.
    destruct (eff now (gi_uuid mi) (gi_times mi) o) eqn:Ef; [|exact H].
    apply eff_uuid in Ef. cbn [uuid_of] in K. congruence.
  Qed.

  Lemma no_doomed_entry_tfilter k T : no_doomed_entry T -> no_doomed_entry (tfilter k T).
  Proof. intros H e He. apply entry_of_tfilter in He as [He _]. exact (H e He). Qed.

  Lemma gstep_inv st o q :
    inv st -> incl (o :: q) src -> no_doomed_entry (ds_root st) -> groups_pending (o :: q) (ds_root st) ->
    inv (fst (gstep now st o q)) /\ incl (snd (gstep now st o q)) src
    /\ no_doomed_entry (ds_root (fst (gstep now st o q)))
    /\ groups_pending (snd (gstep now st o q)) (ds_root (fst (gstep now st o q))).
  Proof.
    intros I Hq Ne Pn.
    assert (Hq' : incl q src) by (intros x Hx; apply Hq; right; exact Hx).
    assert (Ho : In o src) by (apply Hq; left; reflexivity).
    pose proof (inv_uniq st I) as U.
    unfold gstep.
    destruct (deleted_contains (ds_deleted st) (d_uuid o)) eqn:Ed; cbn [fst snd].
    { split; [exact I|]. split; [exact Hq'|]. split; [exact Ne|].
      apply (groups_pending_skip o); [exact Pn|]. intros i c Hg D Ef.
      apply eff_uuid in Ef. pose proof (doomed_live st _ I Hg D) as X. cbn [uuid_of] in X. congruence. }
    assert (Other : (forall gi gc, lookup (d_uuid o) (ds_root st) <> Some (NG gi gc)) ->
                    groups_pending q (ds_root st)).
    { intro Hno. apply (groups_pending_skip o); [exact Pn|]. intros i c Hg D Ef.
      apply eff_uuid in Ef. pose proof (lookup_in _ _ U Hg) as X. cbn [uuid_of] in X.
      rewrite <- Ef in X. exact (Hno _ _ X). }
    destruct (lookup (d_uuid o) (ds_root st)) as [[gi gc|e0]|] eqn:L; cbn [fst snd];
      [|split; [exact I|]; split; [exact Hq'|]; split; [exact Ne|]; apply Other; intros; discriminate ..].
    pose proof (lookup_some _ _ _ L) as [Hn Hu]. cbn [uuid_of] in Hu.
    (* if the found group is not doomed, or o is not newer than it, o can be dropped *)
    assert (Skip : (dm (NG gi gc) = true -> eff now (gi_uuid gi) (gi_times gi) o = true -> False) ->
                   groups_pending q (ds_root st)).
    { intro Hs. apply (groups_pending_skip o); [exact Pn|]. intros i c Hg D Ef.
      pose proof (lookup_in _ _ U Hg) as X. cbn [uuid_of] in X.
      rewrite <- (eff_uuid _ _ _ Ef), L in X. injection X as -> ->. exact (Hs D Ef). }
    assert (Child : forall c, In c gc -> In c (all_nodes (ds_root st))).
    { intros c Hc. apply (all_nodes_trans _ _ Hn). apply child_in_all_nodes. exact Hc. }
    assert (DChild : dm (NG gi gc) = true -> forall c, In c gc -> dm c = true).
    { intros D c Hc. rewrite doomed_NG in D. apply andb_true_iff in D as [_ D].
      exact (proj1 (forallb_forall _ _) D c Hc). }
    destruct (existsb (fun c => negb (is_group c)) gc) eqn:X1; cbn [fst snd].
    { split; [exact I|]. split; [exact Hq'|]. split; [exact Ne|]. apply Skip. intros D _.
      apply existsb_exists in X1 as (c & Hc & Gc). destruct c as [ci cc|e]; [discriminate|].
      pose proof (Ne e (Child _ Hc)) as X. rewrite (DChild D _ Hc) in X. discriminate. }
    destruct (existsb (fun c => is_group c && in_queue (uuid_of c) q) gc) eqn:X2; cbn [fst snd].
    { split; [exact I|]. split.
      - intros x Hx. apply in_app_or in Hx as [Hx|[<-|[]]]; [apply Hq'; exact Hx|exact Ho].
      - split; [exact Ne|]. apply groups_pending_requeue. exact Pn. }
    destruct (existsb is_group gc) eqn:X3; cbn [fst snd].
    { split; [exact I|]. split; [exact Hq'|]. split; [exact Ne|]. apply Skip. intros D _.
      apply existsb_exists in X3 as (c & Hc & Gc). destruct c as [ci cc|e]; [|discriminate].
      pose proof (Pn ci cc (Child _ Hc) (DChild D _ Hc)) as T. unfold tomb_in in T. cbn [existsb] in T.
      apply orb_true_iff in T as [T|T].
      - apply eff_uuid in T.
        assert (E : NG ci cc = NG gi gc).
        { apply (unique_node (ds_root st) _ _ U (Child _ Hc) Hn). cbn [uuid_of]. congruence. }
        pose proof (height_desc (NG gi gc) (NG ci cc) (child_in_all_nodes gi gc _ Hc)) as Lt.
        rewrite E in Lt. lia.
      - apply existsb_exists in T as (o' & Ho' & Ef). apply eff_uuid in Ef.
        assert (Y : existsb (fun c => is_group c && in_queue (uuid_of c) q) gc = true).
        { apply existsb_exists. exists (NG ci cc). split; [exact Hc|]. cbn [is_group uuid_of andb].
          unfold in_queue. apply existsb_exists. exists o'. split; [exact Ho'|]. apply N.eqb_eq. exact Ef. }
        congruence. }
    pose proof (no_children gc X1 X3) as Egc. subst gc.
    destruct (Z.ltb (fst (lm_or (gi_times gi) now)) (d_time o)) eqn:Lt; cbn [fst snd ds_root].
    - assert (D0 : dm (NG gi []) = true).
      { rewrite doomed_NG. cbn [forallb]. rewrite andb_true_r.
        apply (tomb_intro st (NG gi []) o I Hn Ho); [symmetry; exact Hu|exact Ed|exact Lt]. }
      split; [eapply inv_remove; eassumption|]. split; [exact Hq'|].
      split; [apply no_doomed_entry_tfilter; exact Ne|].
      eapply groups_pending_remove; eassumption.
    - split; [apply inv_same; exact I|]. split; [exact Hq'|]. split; [exact Ne|].
      apply Skip. intros _ Ef. apply eff_time in Ef. congruence.
  Qed.

  Lemma del_groups_inv : forall fuel st q st',
    inv st -> incl q src -> no_doomed_entry (ds_root st) -> groups_pending q (ds_root st) ->
    del_groups fuel now st q = Ok st' ->
    inv st' /\ no_doomed_entry (ds_root st') /\ groups_pending [] (ds_root st').
  Proof.
    induction fuel as [|f IH]; intros st q st' I Hq Ne Pn H; destruct q as [|o q]; cbn [del_groups] in H;
      try discriminate; try (injection H as <-; auto).
    rewrite (del_group_step_eq now st o q (inv_uniq st I)) in H. cbn [bind] in H.
    destruct (gstep_inv st o q I Hq Ne Pn) as (I1 & Hq1 & Ne1 & Pn1).
    destruct (gstep now st o q) as [st1 q1]. cbn [fst snd] in *.
    exact (IH _ _ _ I1 Hq1 Ne1 Pn1 H).
  Qed.

  (* ---------- both loops ---------- *)

  Lemma merge_deletions_inv root' deleted' lg :
    uuids_unique (children_of R) ->
    merge_deletions now R deleted src = Ok (root', deleted', lg) ->
    exists st, root' = ds_root st /\ deleted' = ds_deleted st /\ lg = ds_log st
      /\ inv st /\ no_doomed_entry (ds_root st) /\ groups_pending [] (ds_root st).
  Proof.
    intros U H. unfold merge_deletions in H.
    destruct (del_entries now _ src) as [st1| | |] eqn:E1; cbn [bind] in H; try discriminate.
    destruct (del_groups _ now st1 _) as [st2| | |] eqn:E2; cbn [bind] in H; try discriminate.
    injection H as <- <- <-.
    assert (I0 : inv (mkDstate R deleted [])).
    { constructor; cbn [ds_root ds_deleted]; [exact U|reflexivity|].
      exists []. split; [symmetry; apply app_nil_r|intros o []]. }
    assert (P0 : entries_pending src R).
    { intros e He D. cbn [doomed] in D. unfold tomb in D. apply andb_true_iff in D. tauto. }
    destruct (del_entries_inv src _ _ I0 (incl_refl src) P0 E1) as [I1 P1].
    assert (Ne1 : no_doomed_entry (ds_root st1)).
    { intros e He. destruct (dm (NE e)) eqn:D; [|reflexivity]. pose proof (P1 e He D) as X. discriminate X. }
    assert (Q1 : groups_pending (filter (fun o => negb (deleted_contains (ds_deleted st1) (d_uuid o))) src)
                                (ds_root st1)).
    { intros i c Hg D. pose proof (doomed_tomb _ _ _ _ D) as T. cbn [uuid_of node_times] in T.
      unfold tomb in T. apply andb_true_iff in T as [_ T]. unfold tomb_in in *.
      apply existsb_exists in T as (o & Ho & Ef). apply existsb_exists. exists o. split; [|exact Ef].
      apply filter_In. split; [exact Ho|]. rewrite (eff_uuid _ _ _ Ef).
      pose proof (doomed_live st1 _ I1 Hg D) as X. cbn [uuid_of] in X. rewrite X. reflexivity. }
    destruct (del_groups_inv _ _ _ _ I1 (incl_filter _ src) Ne1 Q1 E2) as (I2 & Ne2 & Q2).
    exists st2. auto 7.
  Qed.
End Phase.

(* ---------- MAIN THEOREM: the tree after the deletion phase ---------- *)

Theorem merge_deletions_prune now root deleted src root' deleted' lg :
  uuids_unique (children_of root) ->
  merge_deletions now root deleted src = Ok (root', deleted', lg) ->
  root' = prune now deleted src root.
Proof.
  intros U H.
  destruct (merge_deletions_inv now deleted src root root' deleted' lg U H)
    as (st & -> & _ & _ & I & Ne & Q).
  rewrite <- (inv_prune _ _ _ _ _ I). symmetry. apply prune_id.
  intros [i c|e] Hn; [|exact (Ne e Hn)].
  destruct (doomed now deleted src (NG i c)) eqn:D; [|reflexivity]. pose proof (Q i c Hn D) as X. discriminate X.
Qed.

(* on a tree with distinct UUIDs the phase always succeeds (MergeTermination) with that tree *)
Theorem merge_deletions_total_prune now root deleted src :
  uuids_unique (children_of root) ->
  exists deleted' lg,
    merge_deletions now root deleted src = Ok (prune now deleted src root, deleted', lg).
Proof.
  intro U. destruct (merge_deletions_ok now root deleted src U) as (r & d & lg & E & _).
  exists d, lg. rewrite E. rewrite (merge_deletions_prune _ _ _ _ _ _ _ U E). reflexivity.
Qed.

(* ---------- (2) the rule, UUID by UUID ---------- *)

Definition doomed_uuid (now : Z) (deleted src : list dobj) (root : node) (u : N) : bool :=
  match lookup u root with Some n => doomed now deleted src n | None => false end.

Lemma doomed_uuid_node now deleted src root n :
  uuids_unique (children_of root) -> In n (all_nodes root) ->
  doomed_uuid now deleted src root (uuid_of n) = doomed now deleted src n.
Proof. intros U Hn. unfold doomed_uuid. rewrite (lookup_in root n U Hn). reflexivity. Qed.

Theorem deletions_rule now root deleted src root' deleted' lg :
  uuids_unique (children_of root) ->
  merge_deletions now root deleted src = Ok (root', deleted', lg) ->
  forall u, In u (all_uuids root')
            <-> In u (all_uuids root) /\ doomed_uuid now deleted src root u = false.
Proof.
  intros U H u. rewrite (merge_deletions_prune _ _ _ _ _ _ _ U H), all_uuids_prune. split.
  - intro Hu. apply in_map_iff in Hu as (n & <- & Hn). apply filter_In in Hn as [Hn D].
    apply negb_true_iff in D. split; [apply node_uuid_in; exact Hn|].
    rewrite doomed_uuid_node; assumption.
  - intros [Hu D]. rewrite all_uuids_nodes in Hu. apply in_map_iff in Hu as (n & <- & Hn).
    rewrite doomed_uuid_node in D by assumption. apply in_map. apply filter_In.
    split; [exact Hn|]. rewrite D. reflexivity.
Qed.

(* a node of the destination is gone iff it is doomed *)
Corollary node_removed_iff now root deleted src root' deleted' lg :
  uuids_unique (children_of root) ->
  merge_deletions now root deleted src = Ok (root', deleted', lg) ->
  forall n, In n (all_nodes root) ->
    (~ In (uuid_of n) (all_uuids root') <-> doomed now deleted src n = true).
Proof.
  intros U H n Hn. rewrite (deletions_rule _ _ _ _ _ _ _ U H), (doomed_uuid_node _ _ _ _ _ U Hn). split.
  - intro Hno. destruct (doomed now deleted src n); [reflexivity|]. exfalso. apply Hno.
    split; [apply node_uuid_in; exact Hn|reflexivity].
  - intros D [_ X]. congruence.
Qed.

(* the nodes of the result: the surviving nodes, each without its doomed descendants *)
Corollary result_nodes now root deleted src root' deleted' lg :
  uuids_unique (children_of root) ->
  merge_deletions now root deleted src = Ok (root', deleted', lg) ->
  all_nodes root'
  = map (prune now deleted src) (filter (fun n => negb (doomed now deleted src n)) (all_nodes root)).
Proof. intros U H. rewrite (merge_deletions_prune _ _ _ _ _ _ _ U H). apply all_nodes_prune. Qed.

Corollary survivor_exact now root deleted src root' deleted' lg :
  uuids_unique (children_of root) ->
  merge_deletions now root deleted src = Ok (root', deleted', lg) ->
  forall n, In n (all_nodes root) -> doomed now deleted src n = false ->
  In (prune now deleted src n) (all_nodes root').
Proof.
  intros U H n Hn D. rewrite (result_nodes _ _ _ _ _ _ _ U H). apply in_map. apply filter_In.
  split; [exact Hn|]. rewrite D. reflexivity.
Qed.

(* ---------- the time stamp compared, and the tombstone condition spelled out ---------- *)

(* LastModificationTime, or the time of the merge when the node has none *)
Definition lm_val (now : Z) (t : times) : Z := match t_lm t with Some v => v | None => now end.

Lemma lm_or_fst t now : fst (lm_or t now) = lm_val now t.
Proof. unfold lm_or, lm_val. destruct (t_lm t); reflexivity. Qed.

Lemma tomb_iff now deleted src u t :
  tomb now deleted src u t = true
  <-> deleted_contains deleted u = false
      /\ exists o, In o src /\ d_uuid o = u /\ (lm_val now t < d_time o)%Z.
Proof.
  unfold tomb, tomb_in. rewrite andb_true_iff, negb_true_iff, existsb_exists.
  split; intros [Hd (o & Ho & Hx)]; (split; [exact Hd|]); exists o; (split; [exact Ho|]).
  - unfold eff in Hx. apply andb_true_iff in Hx as [E L]. rewrite lm_or_fst in L.
    split; [apply N.eqb_eq; exact E|apply Z.ltb_lt; exact L].
  - destruct Hx as [E L]. unfold eff. rewrite lm_or_fst. apply andb_true_iff.
    split; [apply N.eqb_eq; exact E|apply Z.ltb_lt; exact L].
Qed.

Lemma doomed_false_of_tomb now deleted src n :
  tomb now deleted src (uuid_of n) (node_times n) = false -> doomed now deleted src n = false.
Proof.
  intro T. destruct (doomed now deleted src n) eqn:D; [|reflexivity].
  apply doomed_tomb in D. congruence.
Qed.

(* ---------- (1) entries ---------- *)

(* ANY tombstone of the source for that UUID that is strictly newer counts (not only the
   first); a missing LastModificationTime counts as the time of the merge *)
Theorem entry_deleted_iff now root deleted src root' deleted' lg :
  uuids_unique (children_of root) ->
  merge_deletions now root deleted src = Ok (root', deleted', lg) ->
  forall e, In (NE e) (all_nodes root) ->
    (~ In (e_uuid e) (all_uuids root')
     <-> deleted_contains deleted (e_uuid e) = false
         /\ exists o, In o src /\ d_uuid o = e_uuid e /\ (lm_val now (e_times e) < d_time o)%Z).
Proof.
  intros U H e He. rewrite (node_removed_iff _ _ _ _ _ _ _ U H (NE e) He). cbn [doomed]. apply tomb_iff.
Qed.

(* ---------- (2) groups ---------- *)

(* a group goes iff it is tombstoned by the source only, strictly older than (one of) its
   tombstone(s), and every one of its children goes in this same phase *)
Theorem group_deleted_iff now root deleted src root' deleted' lg :
  uuids_unique (children_of root) ->
  merge_deletions now root deleted src = Ok (root', deleted', lg) ->
  forall i c, In (NG i c) (all_nodes root) ->
    (~ In (gi_uuid i) (all_uuids root')
     <-> deleted_contains deleted (gi_uuid i) = false
         /\ (exists o, In o src /\ d_uuid o = gi_uuid i /\ (lm_val now (gi_times i) < d_time o)%Z)
         /\ forall ch, In ch c -> ~ In (uuid_of ch) (all_uuids root')).
Proof.
  intros U H i c Hg. rewrite (node_removed_iff _ _ _ _ _ _ _ U H (NG i c) Hg).
  rewrite doomed_NG, andb_true_iff, tomb_iff, forallb_forall.
  assert (Ch : forall ch, In ch c ->
            (~ In (uuid_of ch) (all_uuids root') <-> doomed now deleted src ch = true)).
  { intros ch Hc. apply (node_removed_iff _ _ _ _ _ _ _ U H).
    apply (all_nodes_trans _ _ Hg). apply child_in_all_nodes. exact Hc. }
  split.
  - intros [[Hd Ho] Hall]. split; [exact Hd|]. split; [exact Ho|].
    intros ch Hc. apply (Ch ch Hc). apply Hall. exact Hc.
  - intros (Hd & Ho & Hall). split; [split; assumption|]. intros ch Hc. apply (Ch ch Hc). apply Hall. exact Hc.
Qed.

(* ---------- order independence ---------- *)

(* the resulting tree only depends on the SET of source tombstones: neither on their order nor
   on repetitions; no hypothesis on the UUIDs inside the tombstone lists *)
Theorem merge_deletions_set_independent now root deleted s1 s2 r1 d1 l1 r2 d2 l2 :
  uuids_unique (children_of root) -> same_set s1 s2 ->
  merge_deletions now root deleted s1 = Ok (r1, d1, l1) ->
  merge_deletions now root deleted s2 = Ok (r2, d2, l2) ->
  r1 = r2.
Proof.
  intros U S H1 H2. rewrite (merge_deletions_prune _ _ _ _ _ _ _ U H1), (merge_deletions_prune _ _ _ _ _ _ _ U H2).
  apply prune_same_set. exact S.
Qed.

Theorem merge_deletions_order_independent now root deleted s1 s2 r1 d1 l1 r2 d2 l2 :
  uuids_unique (children_of root) -> Permutation s1 s2 ->
  merge_deletions now root deleted s1 = Ok (r1, d1, l1) ->
  merge_deletions now root deleted s2 = Ok (r2, d2, l2) ->
  r1 = r2.
Proof. intros U P. apply merge_deletions_set_independent; [exact U|apply perm_same_set; exact P]. Qed.

Corollary merge_deletions_order_independent_total now root deleted s1 s2 :
  uuids_unique (children_of root) -> Permutation s1 s2 ->
  exists r d1 l1 d2 l2,
    merge_deletions now root deleted s1 = Ok (r, d1, l1)
    /\ merge_deletions now root deleted s2 = Ok (r, d2, l2).
Proof.
  intros U P. destruct (merge_deletions_total_prune now root deleted s1 U) as (d1 & l1 & E1).
  destruct (merge_deletions_total_prune now root deleted s2 U) as (d2 & l2 & E2).
  rewrite <- (prune_perm now deleted s1 s2 P) in E2. eauto 8.
Qed.

(* ---------- (3) survivors ---------- *)

(* a group that keeps a child is kept *)
Corollary group_with_surviving_child now root deleted src root' deleted' lg :
  uuids_unique (children_of root) ->
  merge_deletions now root deleted src = Ok (root', deleted', lg) ->
  forall i c ch, In (NG i c) (all_nodes root) -> In ch c ->
    In (uuid_of ch) (all_uuids root') -> In (gi_uuid i) (all_uuids root').
Proof.
  intros U H i c ch Hg Hc Hs.
  assert (Hch : In ch (all_nodes root)) by (apply (all_nodes_trans _ _ Hg); apply child_in_all_nodes; exact Hc).
  apply (deletions_rule _ _ _ _ _ _ _ U H) in Hs as [_ Ds]. rewrite (doomed_uuid_node _ _ _ _ _ U Hch) in Ds.
  apply (deletions_rule _ _ _ _ _ _ _ U H). split; [apply (node_uuid_in _ _ Hg)|].
  change (gi_uuid i) with (uuid_of (NG i c)). rewrite (doomed_uuid_node _ _ _ _ _ U Hg).
  rewrite doomed_NG. destruct (forallb (doomed now deleted src) c) eqn:F; [|apply andb_false_r].
  pose proof (proj1 (forallb_forall _ _) F ch Hc). congruence.
Qed.

(* a node none of whose source tombstones is strictly newer stays; a group stays with all its
   content except what the rule removes individually ([prune] of it) *)
Corollary not_newer_survives now root deleted src root' deleted' lg :
  uuids_unique (children_of root) ->
  merge_deletions now root deleted src = Ok (root', deleted', lg) ->
  forall n, In n (all_nodes root) ->
    (forall o, In o src -> d_uuid o = uuid_of n -> (d_time o <= lm_val now (node_times n))%Z) ->
    In (prune now deleted src n) (all_nodes root').
Proof.
  intros U H n Hn Hall. apply (survivor_exact _ _ _ _ _ _ _ U H n Hn). apply doomed_false_of_tomb.
  destruct (tomb now deleted src (uuid_of n) (node_times n)) eqn:T; [|reflexivity].
  apply tomb_iff in T as (_ & o & Ho & Eu & Lt). specialize (Hall o Ho Eu). lia.
Qed.

(* nothing that the destination itself has tombstoned (and still holds) is touched *)
Corollary destination_tombstoned_survives now root deleted src root' deleted' lg :
  uuids_unique (children_of root) ->
  merge_deletions now root deleted src = Ok (root', deleted', lg) ->
  forall n, In n (all_nodes root) -> deleted_contains deleted (uuid_of n) = true ->
    In (prune now deleted src n) (all_nodes root').
Proof.
  intros U H n Hn Hd. apply (survivor_exact _ _ _ _ _ _ _ U H n Hn). apply doomed_false_of_tomb.
  unfold tomb. rewrite Hd. reflexivity.
Qed.

(* a node for which the source has no tombstone stays *)
Corollary untombstoned_survives now root deleted src root' deleted' lg :
  uuids_unique (children_of root) ->
  merge_deletions now root deleted src = Ok (root', deleted', lg) ->
  forall n, In n (all_nodes root) -> (forall o, In o src -> d_uuid o <> uuid_of n) ->
    In (prune now deleted src n) (all_nodes root').
Proof.
  intros U H n Hn Hno. apply (not_newer_survives _ _ _ _ _ _ _ U H n Hn).
  intros o Ho E. exfalso. exact (Hno o Ho E).
Qed.

(* a surviving entry is unchanged; a surviving group keeps its own fields *)
Lemma prune_entry now deleted src e : prune now deleted src (NE e) = NE e.
Proof. reflexivity. Qed.

Lemma prune_group now deleted src i c : prune now deleted src (NG i c) = NG i (prunes now deleted src c).
Proof. apply prune_NG. Qed.

(* ---------- what is recorded: tombstone list and log ---------- *)

Definition kind_ev (n : node) (u : N) : levent :=
  Ev (if is_group n then GroupDeleted else EntryDeleted) u.

Definition is_warns (w : log) : Prop := Forall (fun ev => ev = Warn) w.

Lemma lm_or_warns t d : is_warns (snd (lm_or t d)).
Proof. unfold lm_or. destruct (t_lm t); cbn [snd]; repeat constructor. Qed.

Section Account.
  Variable now : Z.
  Variable deleted : list dobj.
  Variable src : list dobj.
  Variable R : node.

  (* one step of either loop: nothing but warnings, or the removal of a childless node that a
     source tombstone (unknown to the destination, strictly newer) names *)
  Inductive dtrans (st st' : dstate) : Prop :=
  | dt_same w :
      ds_root st' = ds_root st -> ds_deleted st' = ds_deleted st ->
      ds_log st' = ds_log st ++ w -> is_warns w -> dtrans st st'
  | dt_rem o n w :
      In o src -> lookup (d_uuid o) (ds_root st) = Some n -> children_of n = [] ->
      deleted_contains (ds_deleted st) (d_uuid o) = false ->
      Z.ltb (fst (lm_or (node_times n) now)) (d_time o) = true -> is_warns w ->
      st' = mkDstate (tfilter (kf (d_uuid o)) (ds_root st)) (ds_deleted st ++ [o])
                     (ds_log st ++ w ++ [kind_ev n (d_uuid o)]) ->
      dtrans st st'.

  Lemma dtrans_refl st : dtrans st st.
  Proof. apply (dt_same st st []); [reflexivity|reflexivity|symmetry; apply app_nil_r|constructor]. Qed.

  Lemma estep_trans st o : In o src -> dtrans st (estep now st o).
  Proof.
    intro Ho. unfold estep.
    destruct (deleted_contains (ds_deleted st) (d_uuid o)) eqn:Ed; [apply dtrans_refl|].
    destruct (lookup (d_uuid o) (ds_root st)) as [[gi gc|e]|] eqn:L; try apply dtrans_refl.
    destruct (Z.ltb (fst (lm_or (e_times e) now)) (d_time o)) eqn:Lt.
    - eapply (dt_rem st _ o (NE e)); try eassumption; [reflexivity|apply lm_or_warns|reflexivity].
    - eapply dt_same; cbn [ds_root ds_deleted ds_log]; [reflexivity|reflexivity|reflexivity|apply lm_or_warns].
  Qed.

  Lemma gstep_trans st o q : In o src -> dtrans st (fst (gstep now st o q)).
  Proof.
    intro Ho. unfold gstep.
    destruct (deleted_contains (ds_deleted st) (d_uuid o)) eqn:Ed; [apply dtrans_refl|].
    destruct (lookup (d_uuid o) (ds_root st)) as [[gi gc|e]|] eqn:L; try apply dtrans_refl.
    destruct (existsb (fun c => negb (is_group c)) gc) eqn:X1; [apply dtrans_refl|].
    destruct (existsb (fun c => is_group c && in_queue (uuid_of c) q) gc); [apply dtrans_refl|].
    destruct (existsb is_group gc) eqn:X3; [apply dtrans_refl|].
    pose proof (no_children gc X1 X3) as ->.
    destruct (Z.ltb (fst (lm_or (gi_times gi) now)) (d_time o)) eqn:Lt; cbn [fst].
    - eapply (dt_rem st _ o (NG gi [])); try eassumption; [reflexivity|apply lm_or_warns|reflexivity].
    - eapply dt_same; cbn [ds_root ds_deleted ds_log]; [reflexivity|reflexivity|reflexivity|apply lm_or_warns].
  Qed.

  Lemma gstep_queue st o q : incl (snd (gstep now st o q)) (o :: q).
  Proof.
    assert (Hq : incl q (o :: q)) by (intros x Hx; right; exact Hx).
    unfold gstep. destruct (deleted_contains _ _); [exact Hq|].
    destruct (lookup _ _) as [[gi gc|e]|]; try exact Hq.
    destruct (existsb _ gc); [exact Hq|].
    destruct (existsb _ gc).
    { cbn [snd]. intros x Hx. apply in_app_or in Hx as [Hx|[<-|[]]]; [right; exact Hx|left; reflexivity]. }
    destruct (existsb _ gc); [exact Hq|]. destruct (Z.ltb _ _); exact Hq.
  Qed.

  (* a node of the current tree has the UUID, time stamps and kind of a node of R *)
  Definition hdr_in (n : node) : Prop :=
    exists n0, In n0 (all_nodes R) /\ uuid_of n0 = uuid_of n
               /\ node_times n0 = node_times n /\ is_group n0 = is_group n.

  Definition recorded (st : dstate) (o : dobj) : Prop :=
    In o src /\ deleted_contains deleted (d_uuid o) = false
    /\ ~ In (d_uuid o) (all_uuids (ds_root st))
    /\ exists n0, In n0 (all_nodes R) /\ uuid_of n0 = d_uuid o
                  /\ Z.ltb (fst (lm_or (node_times n0) now)) (d_time o) = true
                  /\ In (kind_ev n0 (d_uuid o)) (ds_log st).

  Definition logged (added : list dobj) (ev : levent) : Prop :=
    ev = Warn \/ exists o n0, In o added /\ In n0 (all_nodes R) /\ uuid_of n0 = d_uuid o
                              /\ ev = kind_ev n0 (d_uuid o).

  Definition added_acct (st : dstate) (added : list dobj) : Prop :=
    ds_deleted st = deleted ++ added
    /\ NoDup (map d_uuid added)
    /\ (forall o, In o added -> recorded st o)
    /\ (forall ev, In ev (ds_log st) -> logged added ev)
    /\ (forall u, In u (all_uuids R) -> In u (all_uuids (ds_root st)) \/ deleted_contains added u = true).

  Definition acct (st : dstate) : Prop :=
    uuids_unique (children_of (ds_root st))
    /\ (forall n, In n (all_nodes (ds_root st)) -> hdr_in n)
    /\ exists added, added_acct st added.

  Lemma logged_mono a b ev : incl a b -> logged a ev -> logged b ev.
  Proof.
    intros Hi [->|(o & n0 & Ho & E)]; [left; reflexivity|right; exists o, n0; split; [apply Hi; exact Ho|exact E]].
  Qed.

  Lemma dtrans_acct st st' : acct st -> dtrans st st' -> acct st'.
  Proof.
    intros (U & Hh & added & Ea & Nd & Hrec & Hlog & Hcov) T.
    destruct T as [w Er Ed El Hw|o n w Ho L Hleaf Ed Lt Hw ->].
    - unfold acct. rewrite Er. split; [exact U|]. split; [exact Hh|]. exists added.
      unfold added_acct. rewrite Er, Ed, El. split; [exact Ea|]. split; [exact Nd|]. split; [|split; [|exact Hcov]].
      + intros o Ho. destruct (Hrec o Ho) as (A & B & C & n0 & D1 & D2 & D3 & D4).
        unfold recorded. rewrite Er, El. split; [exact A|]. split; [exact B|]. split; [exact C|].
        exists n0. repeat (split; [assumption|]). apply in_or_app. left. exact D4.
      + intros ev Hev. apply in_app_or in Hev as [Hev|Hev]; [apply Hlog; exact Hev|].
        left. exact (proj1 (Forall_forall _ _) Hw ev Hev).
    - pose proof (lookup_some _ _ _ L) as [Hn Hu].
      assert (Hleaves : forall m, In m (all_nodes (ds_root st)) -> uuid_of m = d_uuid o -> children_of m = []).
      { intros m Hm Em. rewrite (unique_node (ds_root st) m n U Hm Hn); [exact Hleaf|congruence]. }
      assert (Hfresh : ~ In (d_uuid o) (map d_uuid added)).
      { intro Hin. apply in_map_iff in Hin as (o' & E' & Ho').
        destruct (Hrec o' Ho') as (_ & _ & C & _). apply C. rewrite E', <- Hu. apply node_uuid_in. exact Hn. }
      destruct (Hh n Hn) as (n0 & Hn0 & Eu0 & Et0 & Eg0).
      split; [|split]; cbn [ds_root ds_deleted ds_log].
      + apply tfilter_unique. exact U.
      + intros m Hm. apply all_nodes_tfilter in Hm as (m0 & Hm0 & -> & _).
        destruct (Hh m0 Hm0) as (k & Hk & E1 & E2 & E3). exists k.
        rewrite tfilter_uuid, tfilter_times, tfilter_is_group. auto.
      + exists (added ++ [o]). unfold added_acct. cbn [ds_root ds_deleted ds_log].
        split; [rewrite Ea, app_assoc; reflexivity|]. split; [|split; [|split]].
        * rewrite map_app. cbn [map]. apply NoDup_snoc; assumption.
        * intros o' Ho'. apply in_app_or in Ho' as [Ho'|[<-|[]]].
          -- destruct (Hrec o' Ho') as (A & B & C & k & D1 & D2 & D3 & D4).
             split; [exact A|]. split; [exact B|]. cbn [ds_root ds_log]. split.
             ++ intro Hin. apply C. exact (tfilter_uuids_incl _ _ _ Hin).
             ++ exists k. repeat (split; [assumption|]). apply in_or_app. left. exact D4.
          -- split; [exact Ho|]. split.
             { rewrite Ea, deleted_contains_app in Ed. apply orb_false_iff in Ed. tauto. }
             cbn [ds_root ds_log]. split.
             { intro Hin. apply tfilter_kept_uuids in Hin. apply kf_true in Hin. apply Hin. reflexivity. }
             exists n0. split; [exact Hn0|]. split; [congruence|]. split; [rewrite Et0; exact Lt|].
             apply in_or_app. right. apply in_or_app. right. left.
             unfold kind_ev. rewrite Eg0. reflexivity.
        * intros ev Hev. apply in_app_or in Hev as [Hev|Hev].
          { eapply logged_mono; [|apply Hlog; exact Hev]. apply incl_appl. apply incl_refl. }
          apply in_app_or in Hev as [Hev|[<-|[]]]; [left; exact (proj1 (Forall_forall _ _) Hw ev Hev)|].
          right. exists o, n0. split; [apply in_or_app; right; left; reflexivity|].
          split; [exact Hn0|]. split; [congruence|]. unfold kind_ev. rewrite Eg0. reflexivity.
        * intros u Hu0. rewrite deleted_contains_app. destruct (N.eq_dec u (d_uuid o)) as [->|Ne].
          { right. cbn [deleted_contains existsb]. rewrite N.eqb_refl. apply orb_true_iff. right. reflexivity. }
          destruct (Hcov u Hu0) as [Hin|Hin]; [left|right; rewrite Hin; reflexivity].
          rewrite all_uuids_nodes in Hin. apply in_map_iff in Hin as (m & <- & Hm).
          rewrite <- (tfilter_uuid (kf (d_uuid o)) m). apply node_uuid_in.
          apply all_nodes_tfilter_leaf; assumption.
  Qed.

  Lemma del_entries_acct : forall l st st',
    acct st -> incl l src -> del_entries now st l = Ok st' -> acct st'.
  Proof.
    induction l as [|o r IH]; intros st st' A Hl H; cbn [del_entries] in H.
    - injection H as <-. exact A.
    - rewrite (del_entry_step_eq now st o (proj1 A)) in H. cbn [bind] in H.
      apply (IH (estep now st o)); [|intros x Hx; apply Hl; right; exact Hx|exact H].
      apply (dtrans_acct st); [exact A|]. apply estep_trans. apply Hl. left. reflexivity.
  Qed.

  Lemma del_groups_acct : forall fuel st q st',
    acct st -> incl q src -> del_groups fuel now st q = Ok st' -> acct st'.
  Proof.
    induction fuel as [|f IH]; intros st q st' A Hq H; destruct q as [|o q]; cbn [del_groups] in H;
      try discriminate; try (injection H as <-; exact A).
    rewrite (del_group_step_eq now st o q (proj1 A)) in H. cbn [bind] in H.
    pose proof (gstep_trans st o q (Hq o (or_introl eq_refl))) as T.
    pose proof (gstep_queue st o q) as Q.
    destruct (gstep now st o q) as [st1 q1]. cbn [fst snd] in *.
    apply (IH st1 q1); [exact (dtrans_acct st st1 A T)| |exact H].
    intros x Hx. apply Hq. apply Q. exact Hx.
  Qed.

  Lemma merge_deletions_acct root' deleted' lg :
    uuids_unique (children_of R) ->
    merge_deletions now R deleted src = Ok (root', deleted', lg) ->
    exists added, added_acct (mkDstate root' deleted' lg) added.
  Proof.
    intros U H. unfold merge_deletions in H.
    destruct (del_entries now _ src) as [st1| | |] eqn:E1; cbn [bind] in H; try discriminate.
    destruct (del_groups _ now st1 _) as [st2| | |] eqn:E2; cbn [bind] in H; try discriminate.
    injection H as <- <- <-.
    assert (A0 : acct (mkDstate R deleted [])).
    { split; [exact U|]. split.
      - intros n Hn. exists n. auto.
      - exists []. split; [symmetry; apply app_nil_r|]. split; [constructor|].
        split; [intros o []|]. split; [intros ev []|]. intros u Hu. left. exact Hu. }
    pose proof (del_entries_acct src _ _ A0 (incl_refl src) E1) as A1.
    pose proof (del_groups_acct _ _ _ _ A1 (incl_filter _ src) E2) as (_ & _ & added & A2).
    exists added. destruct st2. exact A2.
  Qed.
End Account.

(* The tombstones recorded by the phase.  [deleted'] is [deleted] followed by source tombstones
   [added], one per removed node and none for anything else: the UUIDs of [added] are pairwise
   distinct and are exactly the UUIDs that left the tree; each recorded tombstone is strictly
   newer than the node it names, was unknown to the destination, and comes with the deletion
   event of the right kind; the log has nothing else but warnings. *)
Theorem merge_deletions_recorded now root deleted src root' deleted' lg :
  uuids_unique (children_of root) ->
  merge_deletions now root deleted src = Ok (root', deleted', lg) ->
  exists added,
    deleted' = deleted ++ added
    /\ NoDup (map d_uuid added)
    /\ (forall u, deleted_contains added u = true
                  <-> In u (all_uuids root) /\ ~ In u (all_uuids root'))
    /\ (forall o, In o added ->
          In o src /\ deleted_contains deleted (d_uuid o) = false
          /\ exists n, In n (all_nodes root) /\ uuid_of n = d_uuid o
                       /\ doomed now deleted src n = true
                       /\ (lm_val now (node_times n) < d_time o)%Z
                       /\ In (kind_ev n (d_uuid o)) lg)
    /\ (forall ev, In ev lg ->
          ev = Warn \/ exists o n, In o added /\ In n (all_nodes root) /\ uuid_of n = d_uuid o
                                   /\ ev = kind_ev n (d_uuid o)).
Proof.
  intros U H.
  destruct (merge_deletions_acct now deleted src root root' deleted' lg U H)
    as (added & Ea & Nd & Hrec & Hlog & Hcov). cbn [ds_root ds_deleted ds_log] in *.
  exists added. split; [exact Ea|]. split; [exact Nd|]. split; [|split; [|exact Hlog]].
  - intro u. split.
    + intro C. apply existsb_exists in C as (o & Ho & E). apply N.eqb_eq in E. subst u.
      destruct (Hrec o Ho) as (_ & _ & C & n0 & Hn0 & Eu & _). split; [|exact C].
      rewrite <- Eu. apply node_uuid_in. exact Hn0.
    + intros [Hu Hno]. destruct (Hcov u Hu) as [X|X]; [contradiction|exact X].
  - intros o Ho. destruct (Hrec o Ho) as (A & B & C & n0 & Hn0 & Eu & Lt & Ev).
    split; [exact A|]. split; [exact B|]. exists n0. split; [exact Hn0|]. split; [exact Eu|].
    split; [|split; [|exact Ev]].
    + apply (node_removed_iff _ _ _ _ _ _ _ U H n0 Hn0). rewrite Eu. exact C.
    + rewrite lm_or_fst in Lt. apply Z.ltb_lt. exact Lt.
Qed.

(* the tombstone list after the phase, UUID by UUID: what the destination had, plus exactly
   the nodes removed.  In particular a source tombstone is NOT recorded when its node survives
   (newer, or a group that keeps a child) and NOT recorded when the destination does not hold
   the node at all. *)
Corollary tombstone_recorded_iff now root deleted src root' deleted' lg :
  uuids_unique (children_of root) ->
  merge_deletions now root deleted src = Ok (root', deleted', lg) ->
  forall u, deleted_contains deleted' u = true
            <-> deleted_contains deleted u = true
                \/ (In u (all_uuids root) /\ doomed_uuid now deleted src root u = true).
Proof.
  intros U H u. destruct (merge_deletions_recorded _ _ _ _ _ _ _ U H) as (added & -> & _ & Hu & _).
  rewrite deleted_contains_app, orb_true_iff, Hu, (deletions_rule _ _ _ _ _ _ _ U H).
  split; (intros [X|X]; [left; exact X|right]).
  - destruct X as [Hin Hno]. split; [exact Hin|].
    destruct (doomed_uuid now deleted src root u); [reflexivity|]. exfalso. apply Hno. auto.
  - destruct X as [Hin D]. split; [exact Hin|]. intros [_ X]. congruence.
Qed.

(* the deletion events, exactly: one event of the right kind for every removed node, no other *)
Corollary deletion_event_iff now root deleted src root' deleted' lg :
  uuids_unique (children_of root) ->
  merge_deletions now root deleted src = Ok (root', deleted', lg) ->
  forall ev, ev <> Warn ->
    (In ev lg <-> exists n, In n (all_nodes root) /\ doomed now deleted src n = true
                            /\ ev = kind_ev n (uuid_of n)).
Proof.
  intros U H ev Nw. destruct (merge_deletions_recorded _ _ _ _ _ _ _ U H) as (added & _ & _ & Hu & Hrec & Hlog).
  split.
  - intro Hev. destruct (Hlog _ Hev) as [X|(o & n & Ho & Hn & Eu & ->)]; [contradiction|].
    exists n. split; [exact Hn|]. split; [|rewrite Eu; reflexivity].
    destruct (Hrec o Ho) as (_ & _ & n' & Hn' & Eu' & D & _).
    rewrite (unique_node root n n' U Hn Hn'); [exact D|congruence].
  - intros (n & Hn & D & ->).
    assert (Hgone : deleted_contains added (uuid_of n) = true).
    { apply Hu. split; [apply (node_uuid_in _ _ Hn)|]. apply (node_removed_iff _ _ _ _ _ _ _ U H _ Hn). exact D. }
    apply existsb_exists in Hgone as (o & Ho & E). apply N.eqb_eq in E.
    destruct (Hrec o Ho) as (_ & _ & n' & Hn' & Eu' & _ & _ & Hk).
    rewrite (unique_node root n' n U Hn' Hn) in Hk by congruence. rewrite E in Hk. exact Hk.
Qed.

Corollary entry_deleted_event_iff now root deleted src root' deleted' lg :
  uuids_unique (children_of root) ->
  merge_deletions now root deleted src = Ok (root', deleted', lg) ->
  forall u, In (Ev EntryDeleted u) lg
            <-> exists e, In (NE e) (all_nodes root) /\ e_uuid e = u /\ doomed now deleted src (NE e) = true.
Proof.
  intros U H u. rewrite (deletion_event_iff _ _ _ _ _ _ _ U H) by discriminate. split.
  - intros (n & Hn & D & E). destruct n as [i c|e]; [discriminate|]. injection E as ->. exists e. auto.
  - intros (e & He & <- & D). exists (NE e). auto.
Qed.

Corollary group_deleted_event_iff now root deleted src root' deleted' lg :
  uuids_unique (children_of root) ->
  merge_deletions now root deleted src = Ok (root', deleted', lg) ->
  forall u, In (Ev GroupDeleted u) lg
            <-> exists i c, In (NG i c) (all_nodes root) /\ gi_uuid i = u /\ doomed now deleted src (NG i c) = true.
Proof.
  intros U H u. rewrite (deletion_event_iff _ _ _ _ _ _ _ U H) by discriminate. split.
  - intros (n & Hn & D & E). destruct n as [i c|e]; [|discriminate]. injection E as ->. exists i, c. auto.
  - intros (i & c & Hg & <- & D). exists (NG i c). auto.
Qed.

(* ---------- the recorded tombstones and the order of the source list ---------- *)

(* when the source lists at most one tombstone per UUID, the recorded tombstones are exactly
   the source tombstones of the removed nodes *)
Theorem recorded_set now root deleted src root' deleted' lg :
  uuids_unique (children_of root) -> NoDup (map d_uuid src) ->
  merge_deletions now root deleted src = Ok (root', deleted', lg) ->
  exists added, deleted' = deleted ++ added /\ NoDup added
    /\ forall o, In o added
                 <-> In o src /\ In (d_uuid o) (all_uuids root)
                     /\ doomed_uuid now deleted src root (d_uuid o) = true.
Proof.
  intros U Ns H. destruct (merge_deletions_recorded _ _ _ _ _ _ _ U H) as (added & Ea & Nd & Hu & Hrec & _).
  exists added. split; [exact Ea|]. split; [exact (NoDup_map_inv _ _ Nd)|]. intro o. split.
  - intro Ho. destruct (Hrec o Ho) as (A & _ & n & Hn & Eu & D & _). split; [exact A|].
    rewrite <- Eu. split; [apply node_uuid_in; exact Hn|]. rewrite doomed_uuid_node; assumption.
  - intros (Ho & Hin & D).
    assert (Hgone : deleted_contains added (d_uuid o) = true).
    { apply Hu. split; [exact Hin|]. intro X. apply (deletions_rule _ _ _ _ _ _ _ U H) in X as [_ X]. congruence. }
    apply existsb_exists in Hgone as (o' & Ho' & E). apply N.eqb_eq in E.
    destruct (Hrec o' Ho') as (A & _).
    assert (o' = o); [|subst; exact Ho'].
    clear - Ns A Ho E. induction src as [|x r IH]; [destruct A|]. cbn [map] in Ns.
    apply NoDup_cons_iff in Ns as [Nx Nr].
    destruct A as [->|A], Ho as [->|Ho]; auto.
    + exfalso. apply Nx. rewrite E. apply in_map. exact Ho.
    + exfalso. apply Nx. rewrite <- E. apply in_map. exact A.
Qed.

(* ... and then the resulting tombstone LIST only depends on the order of the source list up
   to a permutation of the part that was added *)
Theorem tombstones_order_independent now root deleted s1 s2 r1 d1 l1 r2 d2 l2 :
  uuids_unique (children_of root) -> NoDup (map d_uuid s1) -> Permutation s1 s2 ->
  merge_deletions now root deleted s1 = Ok (r1, d1, l1) ->
  merge_deletions now root deleted s2 = Ok (r2, d2, l2) ->
  r1 = r2 /\ exists a1 a2, d1 = deleted ++ a1 /\ d2 = deleted ++ a2 /\ Permutation a1 a2.
Proof.
  intros U N1 P H1 H2. split; [exact (merge_deletions_order_independent _ _ _ _ _ _ _ _ _ _ _ U P H1 H2)|].
  assert (N2 : NoDup (map d_uuid s2)) by (exact (Permutation_NoDup (Permutation_map d_uuid P) N1)).
  destruct (recorded_set _ _ _ _ _ _ _ U N1 H1) as (a1 & E1 & Nd1 & I1).
  destruct (recorded_set _ _ _ _ _ _ _ U N2 H2) as (a2 & E2 & Nd2 & I2).
  exists a1, a2. split; [exact E1|]. split; [exact E2|]. apply NoDup_Permutation; [exact Nd1|exact Nd2|].
  intro o. rewrite I1, I2. unfold doomed_uuid.
  assert (S : same_set s1 s2) by (apply perm_same_set; exact P).
  destruct (lookup (d_uuid o) root) as [n|]; [rewrite (doomed_same_set now deleted s1 s2 S n)|];
    split; intros (A & B & C); (split; [apply S; exact A|split; [exact B|exact C]]).
Qed.

(* ---------- (4) counter-examples for every hypothesis, and the behaviour of the model on
   the delicate inputs, by computation ---------- *)

Definition xs (z : Z) : option Z := Some z.
Definition xt (lm : option Z) : times := mkTimes lm None 0.
Definition xe (u : N) (lm : option Z) : node := NE (mkEntry u 0 (xt lm) None).
Definition xg (u : N) (lm : option Z) (c : list node) : node := NG (mkGinfo u 0 (xt lm)) c.
Definition xd (u : N) (t : Z) : dobj := mkDobj u t.

(* a tombstone list that names a group, its parent and its grand-parent (and the entry at the
   bottom), in every order that matters: the same tree, everything gone.  (Parent before child
   is the order in which the unrepaired code kept the parent.) *)
Definition chain : node := xg 1 (xs 0) [xg 2 (xs 5) [xg 3 (xs 5) [xg 4 (xs 5) [xe 5 (xs 5)]]]].

Example parent_before_child :
  merge_deletions 100 chain [] [xd 2 10; xd 3 10; xd 4 10; xd 5 10]
  = Ok (xg 1 (xs 0) [], [xd 5 10; xd 4 10; xd 3 10; xd 2 10],
        [Ev EntryDeleted 5; Ev GroupDeleted 4; Ev GroupDeleted 3; Ev GroupDeleted 2]).
Proof. vm_compute. reflexivity. Qed.

Example child_before_parent :
  merge_deletions 100 chain [] [xd 5 10; xd 4 10; xd 3 10; xd 2 10]
  = Ok (xg 1 (xs 0) [], [xd 5 10; xd 4 10; xd 3 10; xd 2 10],
        [Ev EntryDeleted 5; Ev GroupDeleted 4; Ev GroupDeleted 3; Ev GroupDeleted 2]).
Proof. vm_compute. reflexivity. Qed.

Example mixed_order :
  merge_deletions 100 chain [] [xd 3 10; xd 2 10; xd 5 10; xd 4 10]
  = Ok (xg 1 (xs 0) [], [xd 5 10; xd 4 10; xd 3 10; xd 2 10],
        [Ev EntryDeleted 5; Ev GroupDeleted 4; Ev GroupDeleted 3; Ev GroupDeleted 2]).
Proof. vm_compute. reflexivity. Qed.

(* STRICTLY older: an entry modified at the very time of the tombstone stays, and the tombstone
   is not recorded *)
Example equal_time_survives :
  merge_deletions 100 (xg 1 None [xe 5 (xs 10)]) [] [xd 5 10]
  = Ok (xg 1 None [xe 5 (xs 10)], [], []).
Proof. vm_compute. reflexivity. Qed.

(* a node without LastModificationTime is compared as if modified at the time of the merge
   (with a warning): it survives any tombstone of the past *)
Example no_stamp_survives :
  merge_deletions 100 (xg 1 None [xe 5 None]) [] [xd 5 50]
  = Ok (xg 1 None [xe 5 None], [], [Warn]).
Proof. vm_compute. reflexivity. Qed.

Example no_stamp_future_tombstone :
  merge_deletions 100 (xg 1 None [xe 5 None]) [] [xd 5 150]
  = Ok (xg 1 None [], [xd 5 150], [Warn; Ev EntryDeleted 5]).
Proof. vm_compute. reflexivity. Qed.

(* several tombstones for one UUID: any strictly newer one counts, the first such one in list
   order is the one recorded for an entry *)
Example any_tombstone_counts :
  merge_deletions 100 (xg 1 None [xe 5 (xs 10)]) [] [xd 5 3; xd 5 20; xd 5 30]
  = Ok (xg 1 None [], [xd 5 20], [Ev EntryDeleted 5]).
Proof. vm_compute. reflexivity. Qed.

(* ... but for a group the recorded tombstone depends on the order when the source lists
   several for it: same tree, different recorded deletion time.  This is why
   [tombstones_order_independent] asks for one tombstone per UUID. *)
Example duplicate_group_tombstones_order :
  merge_deletions 100 (xg 1 None [xg 2 (xs 0) [xg 3 (xs 0) []]]) [] [xd 2 10; xd 3 10; xd 2 20]
  = Ok (xg 1 None [], [xd 3 10; xd 2 20], [Ev GroupDeleted 3; Ev GroupDeleted 2])
  /\ merge_deletions 100 (xg 1 None [xg 2 (xs 0) [xg 3 (xs 0) []]]) [] [xd 3 10; xd 2 10; xd 2 20]
     = Ok (xg 1 None [], [xd 3 10; xd 2 10], [Ev GroupDeleted 3; Ev GroupDeleted 2]).
Proof. split; vm_compute; reflexivity. Qed.

(* a group with a newer tombstone that keeps a surviving child stays, and its tombstone is
   not recorded; the doomed sibling goes *)
Example surviving_child_keeps_group :
  merge_deletions 100 (xg 1 None [xg 2 (xs 0) [xe 5 (xs 50); xe 6 (xs 0)]]) []
                  [xd 2 10; xd 5 10; xd 6 10]
  = Ok (xg 1 None [xg 2 (xs 0) [xe 5 (xs 50)]], [xd 6 10], [Ev EntryDeleted 6]).
Proof. vm_compute. reflexivity. Qed.

(* a group whose own tombstone is not newer stays, without the content that goes individually *)
Example newer_group_stays_emptied :
  merge_deletions 100 (xg 1 None [xg 2 (xs 50) [xe 5 (xs 0)]]) [] [xd 2 10; xd 5 10]
  = Ok (xg 1 None [xg 2 (xs 50) []], [xd 5 10], [Ev EntryDeleted 5]).
Proof. vm_compute. reflexivity. Qed.

(* what the destination has tombstoned itself is not touched *)
Example destination_tombstone_protects :
  merge_deletions 100 (xg 1 None [xe 5 (xs 0)]) [xd 5 1] [xd 5 10]
  = Ok (xg 1 None [xe 5 (xs 0)], [xd 5 1], []).
Proof. vm_compute. reflexivity. Qed.

(* a source tombstone for a node that the destination does not hold is NOT copied into the
   destination's list by this phase *)
Example unknown_tombstone_dropped :
  merge_deletions 100 (xg 1 None [xe 5 (xs 0)]) [] [xd 7 10]
  = Ok (xg 1 None [xe 5 (xs 0)], [], []).
Proof. vm_compute. reflexivity. Qed.

(* the root group is never deleted (find_node_location does not see it) *)
Example root_never_deleted :
  merge_deletions 100 (xg 1 (xs 0) []) [] [xd 1 10]
  = Ok (xg 1 (xs 0) [], [], []).
Proof. vm_compute. reflexivity. Qed.

(* the hypothesis [uuids_unique]: with a UUID carried by two nodes the first is removed and the
   recorded tombstone then protects the second, although both are doomed *)
Definition twice : node := xg 1 None [xg 2 (xs 50) [xe 5 (xs 0)]; xe 5 (xs 0)].

Theorem prune_without_unique_refuted :
  exists root' deleted' lg,
    merge_deletions 100 twice [] [xd 5 10] = Ok (root', deleted', lg)
    /\ root' <> prune 100 [] [xd 5 10] twice.
Proof.
  eexists _, _, _. split; [vm_compute; reflexivity|]. vm_compute. discriminate.
Qed.

Example twice_result :
  merge_deletions 100 twice [] [xd 5 10]
  = Ok (xg 1 None [xg 2 (xs 50) []; xe 5 (xs 0)], [xd 5 10], [Ev EntryDeleted 5])
  /\ prune 100 [] [xd 5 10] twice = xg 1 None [xg 2 (xs 50) []].
Proof. split; vm_compute; reflexivity. Qed.

(* ---------- at the level of Database::merge ---------- *)

From KP Require MergeUnique.

(* the tree after a merge is the tree after the first phase (merge_group), pruned *)
Theorem merge_deletion_phase now d s d' lg :
  uuids_unique (db_children d) -> merge now d s = Ok (d', lg) ->
  exists root1 lg1,
    merge_group now (db_deleted d) [] (db_root s) false (db_root d) = Ok (root1, lg1)
    /\ uuids_unique (children_of root1)
    /\ db_root d' = prune now (db_deleted d) (db_deleted s) root1.
Proof.
  intros U H. unfold merge in H.
  destruct (merge_group _ _ _ _ _ _) as [[root1 lg1]| | |] eqn:E1; cbn [bind] in H; try discriminate.
  destruct (merge_deletions _ _ _ _) as [[[root2 del2] lg2]| | |] eqn:E2; cbn [bind] in H; try discriminate.
  destruct root2 as [i c|e]; [|discriminate]. injection H as <- _.
  exists root1, lg1. split; [reflexivity|].
  pose proof (MergeUnique.merge_group_step _ _ _ _ _ _ _ _ E1) as [_ N1].
  assert (U1 : uuids_unique (children_of root1)).
  { change (NoDup (uus (children_of root1))). rewrite <- all_uuids_children. apply N1.
    change (NoDup (uus (db_children d))). exact U. }
  split; [exact U1|]. cbn [db_root db_root_info db_children].
  exact (merge_deletions_prune _ _ _ _ _ _ _ U1 E2).
Qed.

Print Assumptions merge_deletions_prune.
Print Assumptions merge_deletions_total_prune.
Print Assumptions deletions_rule.
Print Assumptions entry_deleted_iff.
Print Assumptions group_deleted_iff.
Print Assumptions merge_deletions_set_independent.
Print Assumptions merge_deletions_order_independent_total.
Print Assumptions group_with_surviving_child.
Print Assumptions not_newer_survives.
Print Assumptions destination_tombstoned_survives.
Print Assumptions merge_deletions_recorded.
Print Assumptions tombstone_recorded_iff.
Print Assumptions deletion_event_iff.
Print Assumptions tombstones_order_independent.
Print Assumptions prune_without_unique_refuted.
Print Assumptions merge_deletion_phase.

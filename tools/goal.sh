#!/bin/sh
# usage: tools/goal.sh <file.v> <line>   -- shows the proof state after line <line> (development aid)
f="$1"; n="$2"
tmp=/tmp/goal_$$.v
head -n "$n" "$f" > $tmp
printf '\nShow.\n' >> $tmp
cd /verif/coq && coqtop -Q theories KP -batch -l $tmp 2>&1 | tail -n ${3:-40}
rm -f $tmp

#!/bin/bash
# usage: tools/try_seed.sh <patch.diff> <property> [tier]  -- apply a seeded change to /repo, run the check, undo it
patch=$1; prop=$2; tier=${3:-quick}
cd /repo && git apply "$patch" || { echo "patch does not apply"; exit 2; }
cd /verif && python3 bin/check $prop --tier $tier; rc=$?
git -C /repo checkout -- . ; git -C /repo status --short | head -3
echo "exit=$rc"

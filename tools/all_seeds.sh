#!/bin/bash
# Regression over the seeded changes: apply each to /repo, run the property's quick check, expect a
# VIOLATION with a failing input (not no-failing-input-found), undo.  Prints one line per seed.
cd /verif
for d in seeded/C*/; do
  name=$(basename $d); id=${name%%-*}
  [ -n "$1" ] && [ "$1" != "$name" ] && continue
  if ! git -C /repo apply --check /verif/$d/patch.diff 2>/dev/null; then echo "$name PATCH-DOES-NOT-APPLY"; continue; fi
  git -C /repo apply /verif/$d/patch.diff
  out=$(python3 bin/check $id --tier quick 2>&1); rc=$?
  git -C /repo checkout -- .
  v=$(echo "$out" | grep -c "^VIOLATION")
  nf=$(echo "$out" | grep -c "no-failing-input-found")
  echo "$name exit=$rc violations=$v no-failing-input-found=$nf"
done
git -C /repo status --short | head -3

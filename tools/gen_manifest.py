#!/usr/bin/env python3
"""Regenerate MANIFEST.json from tools/props.json (single source of per-property metadata)."""
import json, os, subprocess
ROOT = os.path.dirname(os.path.dirname(os.path.abspath(__file__)))
props = [json.loads(l) for l in open(os.path.join(ROOT, "properties.jsonl"))]
cfg = json.load(open(os.path.join(ROOT, "tools", "props.json")))
claimed = sorted(k for k, v in cfg.items() if not k.startswith("_") and v.get("claimed", True))
hooks_commits = cfg.get("_hooks_commits", [])
m = {
    "version": 1,
    "setup_cmd": "bin/setup",
    "hooks": {
        "guard": "--cfg keepass_verif",
        "enable": "RUSTFLAGS=\"--cfg keepass_verif\" (set by bin/check / bin/setup when building /verif/harness, whose path dependency is /repo)",
        "baseline_off_cmd": "cd /repo && cargo test --workspace --no-fail-fast --offline",
        "source_commits": hooks_commits,
        "add_only": True,
    },
    "engines": [
        {"name": "coq-model", "path": "coq/", "serves_properties": claimed,
         "kind_free_text": "hand-written Gallina model of keepass-rs + theorems per property (Coq 8.16.1, full .vo build, Print Assumptions checked each run)"},
        {"name": "correspondence-harness", "path": "harness/", "serves_properties": claimed,
         "kind_free_text": "Rust harness built against /repo's working tree: runs the implementation and the extracted model (ocaml/kpmodel) on the same generated inputs, evaluates the property on the implementation, writes replays"},
    ],
    "checks": [],
    "not_applicable": [],
    "notes": "See DESIGN.md. One entry point: bin/check <id> --tier quick|thorough [--replay file]. Known findings: KNOWN_FINDINGS.json.",
}
for p in props:
    pid = p["id"]
    c = cfg.get(pid)
    if c and c.get("claimed", True):
        m["checks"].append({
            "property_id": pid,
            "quick_cmd": "bin/check %s --tier quick" % pid,
            "thorough_cmd": "bin/check %s --tier thorough" % pid,
            "evidence_file": "evidence/%s.json" % pid,
            "replay_cmd_template": "bin/check %s --replay {path}" % pid,
            "engine": "coq-model",
            "level_claimed": {"category": "proof", "text": c["level_text"], "design_ref": "DESIGN.md section 5, " + pid},
            "level_note": c["level_note"],
            "technique": c.get("technique", "Coq proof over a hand-written Gallina model + differential correspondence check against the implementation"),
        })
    else:
        m["not_applicable"].append({"property_id": pid, "reason": (c or {}).get("na_reason", "check not built yet at this commit (planned in DESIGN.md section 5); not a limit of the technique")})
json.dump(m, open(os.path.join(ROOT, "MANIFEST.json"), "w"), indent=1)
print("claimed:", claimed)

#!/bin/bash
# run every claimed check (quick tier) on the current tree; used before committing evidence
cd /verif
tier=${1:-quick}
rc=0
for p in $(python3 -c "import json;print(' '.join(c['property_id'] for c in json.load(open('MANIFEST.json'))['checks']))"); do
  out=$(python3 bin/check $p --tier $tier 2>&1); r=$?
  echo "$out" | grep -E "^(OK|VIOLATION)" | cut -c1-160
  [ $r -ne 0 ] && rc=1
done
exit $rc

(* C18: traversal and lookup *)
module List = Stdlib.List
module String = Stdlib.String
module Printf = Stdlib.Printf
open BinNums
open Datatypes
open Driver
open Nav

let tval_of_sexp = function
  | A "none" -> TNone
  | L [A "u"; s] -> TUnprot (bytes_of_sexp s)
  | L [A "p"; s] -> TProt (bytes_of_sexp s)
  | L [A "b"; s] -> TBytes (bytes_of_sexp s)
  | s -> failwith ("tval: " ^ show_sexp s)

let rec node_of_sexp = function
  | L [A "g"; u; name; L ch] -> NGroup (n_of_sexp u, bytes_of_sexp name, List.map node_of_sexp ch)
  | L [A "e"; u; t] -> NEntry (n_of_sexp u, tval_of_sexp t)
  | s -> failwith ("node: " ^ show_sexp s)

let show_uuids l = show_list (fun x -> show_n (uuid_of x)) l

let () = register "c18" (function
  | [tree; L paths] ->
    let g = node_of_sexp tree in
    let paths = List.map (list_of_sexp bytes_of_sexp) paths in
    let r f = show_list (fun p -> show_opt (fun x -> show_n (uuid_of x)) (f p g)) paths in
    Printf.sprintf "(iter %s) (entries %s) (groups %s) (get %s) (getmut %s)"
      (show_uuids (iter g)) (show_uuids (entries g)) (show_uuids (groups g)) (r get) (r get_mut)
  | _ -> failwith "c18: args")

(* C10 / C11: scripted sources and sinks *)
module List = Stdlib.List
module String = Stdlib.String
module Printf = Stdlib.Printf
open BinNums
open Datatypes
open Driver
open Outcome
open Version
open ReadScript
open WriteScript

let ekind_of_sexp = function
  | A "Other" -> KOther | A "UnexpectedEof" -> KUnexpectedEof | A "Interrupted" -> KInterrupted
  | A "WriteZero" -> KWriteZero | A "BrokenPipe" -> KBrokenPipe
  | s -> failwith ("ekind: " ^ show_sexp s)
let show_ekind = function
  | KOther -> "Other" | KUnexpectedEof -> "UnexpectedEof" | KInterrupted -> "Interrupted"
  | KWriteZero -> "WriteZero" | KBrokenPipe -> "BrokenPipe"
let nat_of_sexp s = nat_of_int (int_of_sexp s)
let fail_of_sexp = opt_of_sexp (function L [k; e] -> (nat_of_sexp k, ekind_of_sexp e) | s -> failwith ("fail: " ^ show_sexp s))
let ract_of_sexp = function A "i" -> Intr | s -> Chunk (nat_of_sexp s)
let wact_of_sexp = function A "i" -> WIntr | s -> Accept (nat_of_sexp s)

let show_version = function
  | KDB m -> "KDB " ^ show_n m | KDB2 m -> "KDB2 " ^ show_n m | KDB3 m -> "KDB3 " ^ show_n m | KDB4 m -> "KDB4 " ^ show_n m

(* (c10-rte file script fail caps) -> ok <hex> | err <kind> *)
let () = register "c10-rte" (function
  | [file; L script; fail; L caps] ->
    let s = { s_rest = bytes_of_sexp file; s_pos = O; s_script = List.map ract_of_sexp script; s_fail = fail_of_sexp fail } in
    (match read_to_end (rte_fuel s) (List.map nat_of_sexp caps) s [] with
     | Ok d -> "ok " ^ atom_of_bytes d
     | Err k -> "err " ^ show_ekind k
     | Panic _ -> "panic" | OutOfFuel -> "out-of-fuel")
  | _ -> failwith "c10-rte: args")

(* (c10-gv file script fail) -> version V m | integrity E | io K *)
let () = register "c10-gv" (function
  | [file; L script; fail] ->
    let s = { s_rest = bytes_of_sexp file; s_pos = O; s_script = List.map ract_of_sexp script; s_fail = fail_of_sexp fail } in
    (match get_version_model s with
     | Ok (GvVersion v) -> "version " ^ show_version v
     | Ok (GvIntegrity InvalidKDBXIdentifier) -> "integrity InvalidKDBXIdentifier"
     | Ok (GvIntegrity InvalidKDBXVersion) -> "integrity InvalidKDBXVersion"
     | Ok (GvIo k) -> "io " ^ show_ekind k
     | Err () -> "err" | Panic _ -> "panic" | OutOfFuel -> "out-of-fuel")
  | _ -> failwith "c10-gv: args")

(* (c11 (piece ...) script fail) -> ok <received hex> | err <kind> <received?> *)
let () = register "c11" (function
  | [L pieces; L script; fail] ->
    let k = fresh_sink (List.map wact_of_sexp script) (fail_of_sexp fail) in
    (match save_to_sink (List.map bytes_of_sexp pieces) k with
     | Ok k' -> "ok " ^ string_of_int (List.length k'.k_recv)
     | Err e -> "err " ^ show_ekind e
     | Panic _ -> "panic" | OutOfFuel -> "out-of-fuel")
  | _ -> failwith "c11: args")

(* Driver for the extracted model: line protocol, S-expression parsing, conversions between OCaml
   ints / hex strings and the extracted inductive numbers, canonical printers.  No logic of the
   model lives here.

   Protocol (stdin/stdout): each request is one line holding one S-expression
       (cmd arg ...)
   The reply is one line starting with "= ".  While computing a reply the driver may emit oracle
   requests "? name hexarg ..." and then reads one line with the hex answer (or "!" for an error). *)

(* the extracted modules are named after the Coq modules; some (List, Nat, String) shadow the
   OCaml standard library, so the standard ones are re-bound here *)
module List = Stdlib.List
module String = Stdlib.String
module Hashtbl = Stdlib.Hashtbl
module Buffer = Stdlib.Buffer
module Char = Stdlib.Char
module Printf = Stdlib.Printf
open BinNums
open Datatypes
type n = coq_N
type z = coq_Z

(* ---------- S-expressions ---------- *)
type sexp = A of string | L of sexp list

let parse_sexp (s : string) : sexp =
  let n = String.length s in
  let pos = ref 0 in
  let rec skip () = if !pos < n && (s.[!pos] = ' ' || s.[!pos] = '\t' || s.[!pos] = '\n' || s.[!pos] = '\r') then (incr pos; skip ()) in
  let rec parse () =
    skip ();
    if !pos >= n then failwith "sexp: eof"
    else if s.[!pos] = '(' then begin
      incr pos;
      let items = ref [] in
      let rec loop () =
        skip ();
        if !pos >= n then failwith "sexp: unclosed"
        else if s.[!pos] = ')' then incr pos
        else (items := parse () :: !items; loop ()) in
      loop ();
      L (List.rev !items)
    end else begin
      let st = !pos in
      while !pos < n && not (s.[!pos] = ' ' || s.[!pos] = '(' || s.[!pos] = ')' || s.[!pos] = '\n' || s.[!pos] = '\r' || s.[!pos] = '\t') do incr pos done;
      A (String.sub s st (!pos - st))
    end in
  parse ()

let rec show_sexp = function
  | A a -> a
  | L l -> "(" ^ String.concat " " (List.map show_sexp l) ^ ")"

(* ---------- numbers ---------- *)
let rec pos_of_int (i : int) : positive =
  if i = 1 then Coq_xH else if i land 1 = 0 then Coq_xO (pos_of_int (i lsr 1)) else Coq_xI (pos_of_int (i lsr 1))
let n_of_int (i : int) : n = if i = 0 then N0 else if i < 0 then failwith "n_of_int: negative" else Npos (pos_of_int i)
let rec int_of_pos = function Coq_xH -> 1 | Coq_xO p -> 2 * int_of_pos p | Coq_xI p -> 2 * int_of_pos p + 1
let int_of_n = function N0 -> 0 | Npos p -> int_of_pos p
let rec nat_of_int (i : int) : nat = if i <= 0 then O else S (nat_of_int (i - 1))
let rec int_of_nat = function O -> 0 | S k -> 1 + int_of_nat k
let z_of_int (i : int) : z = if i = 0 then Z0 else if i > 0 then Zpos (pos_of_int i) else Zneg (pos_of_int (- i))
let int_of_z = function Z0 -> 0 | Zpos p -> int_of_pos p | Zneg p -> - (int_of_pos p)

(* big numbers as decimal strings are not needed: every number on the wire fits 62 bits *)

let hexval c = match c with
  | '0'..'9' -> Char.code c - 48 | 'a'..'f' -> Char.code c - 87 | 'A'..'F' -> Char.code c - 55
  | _ -> failwith "hex"
(* byte strings on the wire: "x" followed by hex digits *)
let bytes_of_atom (a : string) : n list =
  if String.length a = 0 || a.[0] <> 'x' then failwith ("bytes atom: " ^ a);
  let k = (String.length a - 1) / 2 in
  List.init k (fun i -> n_of_int (hexval a.[1 + 2*i] * 16 + hexval a.[2 + 2*i]))
let atom_of_bytes (l : n list) : string =
  let b = Buffer.create (1 + 2 * List.length l) in
  Buffer.add_char b 'x';
  List.iter (fun x -> Buffer.add_string b (Printf.sprintf "%02x" (int_of_n x))) l;
  Buffer.contents b
let raw_of_bytes (l : n list) : string = let a = atom_of_bytes l in String.sub a 1 (String.length a - 1)
let bytes_of_raw (h : string) : n list = bytes_of_atom ("x" ^ h)

let int_of_sexp = function A a -> int_of_string a | _ -> failwith "int expected"
let n_of_sexp s = n_of_int (int_of_sexp s)
let z_of_sexp s = z_of_int (int_of_sexp s)
let bytes_of_sexp = function A a -> bytes_of_atom a | _ -> failwith "bytes expected"
let list_of_sexp f = function L l -> List.map f l | _ -> failwith "list expected"
let opt_of_sexp f = function A "none" -> None | L [A "some"; x] -> Some (f x) | s -> failwith ("option expected: " ^ show_sexp s)

let show_n x = string_of_int (int_of_n x)
let show_z x = string_of_int (int_of_z x)
let show_list f l = "(" ^ String.concat " " (List.map f l) ^ ")"
let show_opt f = function None -> "none" | Some x -> "(some " ^ f x ^ ")"
let show_bool b = if b then "true" else "false"

(* numbers up to 2^64 arrive as decimal strings *)
let n_of_decimal (s : string) : n =
  let acc = ref N0 in
  String.iter (fun c -> acc := BinNat.N.add (BinNat.N.mul !acc (n_of_int 10)) (n_of_int (Char.code c - 48))) s;
  !acc
let rec decimal_of_n (x : n) : string =
  if x = N0 then "0" else begin
    let rec go x acc = if x = N0 then acc else
        let q = BinNat.N.div x (n_of_int 10) and r = BinNat.N.modulo x (n_of_int 10) in
        go q (string_of_int (int_of_n r) ^ acc) in
    go x ""
  end
let big_of_sexp = function A a -> n_of_decimal a | _ -> failwith "number expected"


(* ---------- oracle ---------- *)
let oracle (name : string) (args : n list list) : n list option =
  print_string ("? " ^ name);
  List.iter (fun a -> print_char ' '; print_string (atom_of_bytes a)) args;
  print_newline ();
  let l = input_line stdin in
  if l = "!" then None else Some (bytes_of_atom (String.trim l))

(* ---------- handlers ---------- *)
let handlers : (string, sexp list -> string) Hashtbl.t = Hashtbl.create 64
let register name f = Hashtbl.replace handlers name f

let main () =
  try
    while true do
      let line = input_line stdin in
      if String.trim line <> "" then begin
        let reply =
          try
            match parse_sexp line with
            | L (A cmd :: args) ->
              (match Hashtbl.find_opt handlers cmd with
               | Some f -> f args
               | None -> "driver-error unknown-command " ^ cmd)
            | _ -> "driver-error bad-request"
          with
          | Failure m -> "driver-error " ^ m
          | Stack_overflow -> "driver-error stack-overflow"
          | Not_found -> "driver-error not-found" in
        print_string "= "; print_string reply; print_newline ()
      end
    done
  with End_of_file -> ()

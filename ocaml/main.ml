let () = Driver.main ()

(* C19: one-time passwords *)
module List = Stdlib.List
module String = Stdlib.String
module Printf = Stdlib.Printf
open BinNums
open Datatypes
open Driver
open Outcome
open Otp

let show_alg = function ASha1 -> "SHA1" | ASha256 -> "SHA256" | ASha512 -> "SHA512"
let show_otp_err = function
  | EUrlFormat -> "UrlFormat" | EIntFormat -> "IntFormat" | EMissingSecret -> "MissingSecret"
  | EBase32 -> "Base32" | EBadScheme -> "BadScheme" | EBadAlgorithm -> "BadAlgorithm"

(* (c19 scheme path ((k v) ...) (time ...)) *)
let () = register "c19" (function
  | [scheme; path; L pairs; L times] ->
    let pairs = List.map (function L [k; v] -> (bytes_of_sexp k, bytes_of_sexp v) | _ -> failwith "pair") pairs in
    (match otp_parse Base32.b32_decode (bytes_of_sexp scheme) (bytes_of_sexp path) pairs with
     | Err e -> "err " ^ show_otp_err e
     | Panic _ -> "panic" | OutOfFuel -> "out-of-fuel"
     | Ok t ->
       let codes = List.map (fun tm ->
           match value_at OtpInst.hmac_alg t (big_of_sexp tm) with
           | Ok ((code, valid), period) -> Printf.sprintf "(%s %s %s)" (atom_of_bytes code) (decimal_of_n valid) (decimal_of_n period)
           | Panic s -> "panic" | _ -> "error") times in
       Printf.sprintf "ok %s %s %s %s %s %s (%s)" (atom_of_bytes t.o_label)
         (show_opt atom_of_bytes t.o_issuer) (decimal_of_n t.o_period) (decimal_of_n t.o_digits)
         (show_alg t.o_alg) (atom_of_bytes (Base32.b32_encode t.o_secret)) (String.concat " " codes))
  | _ -> failwith "c19: args")
let () = register "c19-urlerr" (fun _ -> "err UrlFormat")

(* KDBX4 framing: decrypt4 / dump4 with the primitives served by the harness (oracle) *)
module List = Stdlib.List
module String = Stdlib.String
module Printf = Stdlib.Printf
open BinNums
open Datatypes
open Driver
open Outcome
open Version
open Kdbx4

let big = big_of_sexp
let show_big = decimal_of_n

let ocipher_of_sexp = function A "aes256" -> OAes256 | A "twofish" -> OTwofish | A "chacha20" -> OChaCha20 | s -> failwith ("ocipher " ^ show_sexp s)
let show_ocipher = function OAes256 -> "aes256" | OTwofish -> "twofish" | OChaCha20 -> "chacha20"
let compression_of_sexp = function A "none" -> CNone | A "gzip" -> CGzip | s -> failwith ("compression " ^ show_sexp s)
let show_compression = function CNone -> "none" | CGzip -> "gzip"
let icipher_of_sexp = function A "plain" -> IPlain | A "salsa20" -> ISalsa20 | A "chacha20" -> IChaCha20 | s -> failwith ("icipher " ^ show_sexp s)
let show_icipher = function IPlain -> "plain" | ISalsa20 -> "salsa20" | IChaCha20 -> "chacha20"
let kdf_of_sexp = function
  | L [A "aes"; r] -> KAes (big r)
  | L [A "argon2"; A id; it; mem; par; A v] ->
    KArgon2 ((id = "id"), big it, big mem, big par, (if v = "16" then V10 else V13))
  | s -> failwith ("kdf " ^ show_sexp s)
let show_kdf = function
  | KAes r -> Printf.sprintf "(aes %s)" (show_big r)
  | KArgon2 (id, it, mem, par, v) ->
    Printf.sprintf "(argon2 %s %s %s %s %s)" (if id then "id" else "d") (show_big it) (show_big mem) (show_big par)
      (match v with V10 -> "16" | V13 -> "19")
let show_version = function
  | KDB m -> "kdb " ^ show_n m | KDB2 m -> "kdb2 " ^ show_n m | KDB3 m -> "kdb3 " ^ show_n m | KDB4 m -> "kdb4 " ^ show_n m
let config_of_sexp = function
  | L [minor; oc; z; ic; k] ->
    { c_version = KDB4 (n_of_sexp minor); c_outer = ocipher_of_sexp oc; c_compression = compression_of_sexp z;
      c_inner = icipher_of_sexp ic; c_kdf = kdf_of_sexp k }
  | s -> failwith ("config " ^ show_sexp s)
let show_config c =
  Printf.sprintf "((%s) %s %s %s %s)" (show_version c.c_version) (show_ocipher c.c_outer)
    (show_compression c.c_compression) (show_icipher c.c_inner) (show_kdf c.c_kdf)

let show_kerr = function
  | EIdentifier -> "InvalidKDBXIdentifier" | EVersion -> "InvalidKDBXVersion"
  | EIncompleteOuter -> "IncompleteOuterHeader" | EInvalidOuterEntry -> "InvalidOuterHeaderEntry"
  | EFixedHeader -> "InvalidFixedHeader" | EOuterCipherId -> "OuterCipher" | ECompressionId -> "Compression"
  | EInnerCipherId -> "InnerCipher" | EVdVersion -> "VariantDictionary.InvalidVersion"
  | EVdValueType -> "VariantDictionary.InvalidValueType" | EVdNotTerminated -> "VariantDictionary.NotTerminated"
  | EVdMissingKey -> "VariantDictionary.MissingKey" | EVdMistyped -> "VariantDictionary.Mistyped"
  | EKdfVersion -> "KdfSettings.InvalidKDFVersion" | EKdfUuid -> "KdfSettings.InvalidKDFUUID"
  | EHeaderHash -> "HeaderHashMismatch" | EIncorrectKey -> "IncorrectKey" | EBlockHash -> "BlockHashMismatch"
  | ECrypto -> "Cryptography" | EDecompress -> "Io" | EIncompleteInner -> "IncompleteInnerHeader"
  | EInvalidInnerEntry -> "InvalidInnerHeaderEntry" | EUnsupported -> "UnsupportedVersion" | ERandom -> "Random"

(* primitives through the oracle *)
let o1 name a = match oracle name [a] with Some r -> r | None -> failwith ("oracle " ^ name)
let sha256 a = o1 "sha256" a
let sha512 a = o1 "sha512" a
let hmac256 k m = match oracle "hmac256" [k; m] with Some r -> r | None -> failwith "oracle hmac256"
let enc_kdf k = bytes_of_raw (Stdlib.String.concat "" (List.map (fun c -> Printf.sprintf "%02x" (Char.code c)) (List.of_seq (Stdlib.String.to_seq (show_kdf k)))))
let kdf k seed comp = match oracle "kdf" [enc_kdf k; seed; comp] with Some r -> Ok r | None -> Err ECrypto
let tag_oc = function OAes256 -> [n_of_int 0] | OTwofish -> [n_of_int 1] | OChaCha20 -> [n_of_int 2]
let outer_enc c key iv d = match oracle "outer_enc" [tag_oc c; key; iv; d] with Some r -> Ok r | None -> Err ECrypto
let outer_dec c key iv d = match oracle "outer_dec" [tag_oc c; key; iv; d] with Some r -> Ok r | None -> Err ECrypto
let tag_z = function CNone -> [n_of_int 0] | CGzip -> [n_of_int 1]
let compress z d = match oracle "compress" [tag_z z; d] with Some r -> Ok r | None -> Err EDecompress
let decompress z d = match oracle "decompress" [tag_z z; d] with Some r -> Ok r | None -> Err EDecompress

let elements_of_sexp = function
  | L [A "ok"; L els] -> Ok (List.map bytes_of_sexp els)
  | L [A "err"] -> Err EIncorrectKey
  | s -> failwith ("elements " ^ show_sexp s)

let att_of_sexp = function L [f; c] -> { att_flags = n_of_sexp f; att_content = bytes_of_sexp c } | s -> failwith "att"
let show_att a = Printf.sprintf "(%s %s)" (show_n a.att_flags) (atom_of_bytes a.att_content)

let () = register "decrypt4" (function
  | [file; els] ->
    (match decrypt4 sha256 sha512 hmac256 kdf outer_dec decompress (bytes_of_sexp file) (elements_of_sexp els) with
     | Ok (((cfg, atts), ikey), xml) ->
       Printf.sprintf "ok %s %s %s %s" (show_config cfg) (show_list show_att atts) (atom_of_bytes ikey) (atom_of_bytes xml)
     | Err e -> "err " ^ show_kerr e
     | Panic _ -> "panic" | OutOfFuel -> "out-of-fuel")
  | _ -> failwith "decrypt4: args")

let vdval_of_sexp = function
  | L [A "u32"; v] -> VU32 (big v) | L [A "u64"; v] -> VU64 (big v) | L [A "bytes"; b] -> VBytes (bytes_of_sexp b)
  | L [A "bool"; A b] -> VBool (b = "true") | L [A "str"; b] -> VStr (bytes_of_sexp b)
  | L [A "i32"; v] -> VI32 (big v) | L [A "i64"; v] -> VI64 (big v)
  | s -> failwith ("vdval " ^ show_sexp s)
let vd_of_sexp = list_of_sexp (function L [k; v] -> (bytes_of_sexp k, vdval_of_sexp v) | s -> failwith "vd entry")

(* (dump4 config (seed iv ikey kdfseed) vd elements (atts) xml) *)
let () = register "dump4" (function
  | [cfg; L [ms; iv; ik; ks]; vd; els; L atts; xml] ->
    let d = { d_master_seed = bytes_of_sexp ms; d_iv = bytes_of_sexp iv; d_inner_key = bytes_of_sexp ik; d_kdf_seed = bytes_of_sexp ks } in
    (match dump4 sha256 sha512 hmac256 kdf outer_enc compress (config_of_sexp cfg) d (vd_of_sexp vd) (elements_of_sexp els)
             (List.map att_of_sexp atts) (bytes_of_sexp xml) with
     | Ok f -> "ok " ^ atom_of_bytes f
     | Err e -> "err " ^ show_kerr e
     | Panic _ -> "panic" | OutOfFuel -> "out-of-fuel")
  | _ -> failwith "dump4: args")

(* the dictionary the writer would emit, in `set` order, for a configuration *)
let () = register "draw-sizes" (function
  | [cfg] -> show_list (fun n -> string_of_int (int_of_nat n)) (draw_sizes (config_of_sexp cfg))
  | _ -> failwith "draw-sizes: args")

(* C20: key elements from credentials (format/Key.v) *)
module List = Stdlib.List
module String = Stdlib.String
module Printf = Stdlib.Printf
open BinNums
open Datatypes
open Driver
open Outcome
open Key

let xev_of_sexp = function
  | L [A "s"; n] -> XStart (bytes_of_sexp n)
  | A "e" -> XEnd
  | L [A "c"; s] -> XChars (bytes_of_sexp s)
  | A "o" -> XOther
  | A "x" -> XErr
  | s -> failwith ("xev " ^ show_sexp s)

let sha256 a = match oracle "sha256" [a] with Some r -> r | None -> failwith "oracle sha256"

(* (key-elements <password option> <none | (some (buf (events...)))>) *)
let () = register "key-elements" (function
  | [pw; kf] ->
    let pw = opt_of_sexp bytes_of_sexp pw in
    let kf = opt_of_sexp (function L [buf; L evs] -> (bytes_of_sexp buf, List.map xev_of_sexp evs) | _ -> failwith "keyfile") kf in
    (match key_elements sha256 pw kf with
     | Ok els -> "ok " ^ show_list atom_of_bytes els
     | Err KIncorrectKey -> "err IncorrectKey"
     | Err KInvalidKeyFile -> "err InvalidKeyFile"
     | Panic _ -> "panic" | OutOfFuel -> "out-of-fuel")
  | _ -> failwith "key-elements: args")

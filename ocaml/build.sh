#!/bin/sh
# Re-extract the model and build the driver.  Run from anywhere.
set -e
cd "$(dirname "$0")"
coqc -Q ../coq/theories KP ../coq/extraction/Extract.v >/dev/null
ocamlfind ocamlopt -O2 -w -a -package str model.mli model.ml driver.ml h_*.ml main.ml -o kpmodel 2>&1 | grep -v "options -O2 is only relevant" || true
test -x kpmodel

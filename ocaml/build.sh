#!/bin/sh
# Re-extract the model (one OCaml module per Coq module, under gen/) and build the driver.
set -e
cd "$(dirname "$0")"
rm -rf gen && mkdir -p gen
( cd gen && coqc -Q ../../coq/theories KP ../../coq/extraction/Extract.v >/dev/null )
cp driver.ml gen/
cd gen
ORDER=$(ocamlfind ocamldep -sort *.mli *.ml)
# handlers register themselves at initialisation; main (the request loop) must be linked last
ocamlfind ocamlopt -O2 -w -a -I .. $ORDER ../h_*.ml ../main.ml -o ../kpmodel 2>&1 | grep -v "options -O2 is only relevant" || true
cd ..
test -x kpmodel

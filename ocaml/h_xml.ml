(* XML object mapping (xml/XmlTypes.v, XmlDump.v, XmlParse.v): wire syntax of events and content terms.

   Events:   (s xNAME ((xATTR xVALUE) ...))  |  (e xNAME)  |  (c xTEXT)  |  x        (x = reader error)
   Content terms: records are lists of their fields in struct order, options are none / (some v),
   texts and byte strings are xHEX atoms, numbers are decimal (time stamps = seconds since 1970, signed),
   booleans are true / false.
     value     (u xTEXT) | (p xBYTES) | (b xBYTES)
     times     (EXPIRES USAGE ((xNAME TIME) ...))
     cdata     ((xKEY (OPT-VALUE OPT-TIME)) ...)
     assoc     (OPT-WINDOW OPT-SEQUENCE)          autotype  (ENABLED OPT-SEQUENCE (ASSOC ...))
     colour    (R G B)
     entry     (xUUID ((xKEY VALUE) ...) OPT-AUTOTYPE (xTAG ...) TIMES CDATA OPT-ICON OPT-CUSTOMICON
                OPT-FG OPT-BG OPT-URL OPT-QUALITY OPT-HISTORY)           history = (ENTRY ...)
     group     (xUUID xNAME OPT-NOTES OPT-ICON OPT-CUSTOMICON (NODE ...) TIMES CDATA EXPANDED
                OPT-DEFSEQ OPT-ENABLEAT OPT-ENABLESEARCH OPT-LASTTOP)   node = (entry E) | (group G)
     memprot   (B B B B B)     icon (xUUID xDATA)     binary (OPT-ID COMPRESSED xCONTENT)
     delobj    (xUUID TIME)
     meta      the 26 fields of struct Meta in order
     content   (META GROUP (DELOBJ ...))

   (xml-dump CONTENT xKEYSTREAM)        -> ok (EVENT ...) CONSUMED | err InvalidData
   (xml-parse (EVENT ...) xKEYSTREAM [sorted]) -> ok CONTENT | err CLASS   (sorted: maps printed by key)
   (xml-wf CONTENT) -> true | false        (xml-protected CONTENT) -> (xBYTES ...)
   GZip / gunzip of attachment bodies are oracle calls (compress / decompress with tag 1). *)
module List = Stdlib.List
module String = Stdlib.String
module Printf = Stdlib.Printf
module Char = Stdlib.Char
open BinNums
open Datatypes
open Driver
open Outcome
open XmlTypes

let z_of_decimal (s : string) : z =
  if String.length s > 0 && s.[0] = '-' then
    (match n_of_decimal (String.sub s 1 (String.length s - 1)) with N0 -> Z0 | Npos p -> Zneg p)
  else (match n_of_decimal s with N0 -> Z0 | Npos p -> Zpos p)
let decimal_of_z (x : z) : string =
  match x with Z0 -> "0" | Zpos p -> decimal_of_n (Npos p) | Zneg p -> "-" ^ decimal_of_n (Npos p)
let zt = function A a -> z_of_decimal a | s -> failwith ("time expected: " ^ show_sexp s)
let bt = function A "true" -> true | A "false" -> false | s -> failwith ("bool expected: " ^ show_sexp s)
let by = bytes_of_sexp
let opt = opt_of_sexp
let lst f = function L l -> List.map f l | s -> failwith ("list expected: " ^ show_sexp s)

(* ---------- events ---------- *)
let ev_of_sexp = function
  | L [A "s"; n; L attrs] ->
    EStart (by n, List.map (function L [k; v] -> (by k, by v) | s -> failwith ("attr " ^ show_sexp s)) attrs)
  | L [A "e"; n] -> EEnd (by n)
  | L [A "c"; t] -> EChars (by t)
  | A "x" -> EErr
  | s -> failwith ("event " ^ show_sexp s)
let show_ev = function
  | EStart (n, attrs) ->
    "(s " ^ atom_of_bytes n ^ " " ^ show_list (fun (k, v) -> "(" ^ atom_of_bytes k ^ " " ^ atom_of_bytes v ^ ")") attrs ^ ")"
  | EEnd n -> "(e " ^ atom_of_bytes n ^ ")"
  | EChars t -> "(c " ^ atom_of_bytes t ^ ")"
  | EErr -> "x"

(* ---------- content terms: reading ---------- *)
let value_of = function
  | L [A "u"; t] -> VUnprotected (by t)
  | L [A "p"; b] -> VProtected (by b)
  | L [A "b"; b] -> VBytes (by b)
  | s -> failwith ("value " ^ show_sexp s)
let times_of = function
  | L [e; u; L ts] ->
    { t_expires = bt e; t_usage = big_of_sexp u;
      t_times = List.map (function L [k; t] -> (by k, zt t) | s -> failwith ("time entry " ^ show_sexp s)) ts }
  | s -> failwith ("times " ^ show_sexp s)
let cdata_of = lst (function
  | L [k; L [v; t]] -> (by k, { cd_value = opt value_of v; cd_time = opt zt t })
  | s -> failwith ("custom data item " ^ show_sexp s))
let assoc_of = function
  | L [w; q] -> { as_window = opt by w; as_seq = opt by q }
  | s -> failwith ("assoc " ^ show_sexp s)
let autotype_of = function
  | L [e; q; a] -> { at_enabled = bt e; at_seq = opt by q; at_assocs = lst assoc_of a }
  | s -> failwith ("autotype " ^ show_sexp s)
let color_of = function
  | L [r; g; b] -> ((n_of_sexp r, n_of_sexp g), n_of_sexp b)
  | s -> failwith ("colour " ^ show_sexp s)
let rec entry_of = function
  | L [uuid; L fields; aty; tags; tms; cd; icon; cicon; fg; bg; url; qc; hist] ->
    { e_uuid = by uuid;
      e_fields = List.map (function L [k; v] -> (by k, value_of v) | s -> failwith ("field " ^ show_sexp s)) fields;
      e_autotype = opt autotype_of aty; e_tags = lst by tags; e_times = times_of tms; e_custom_data = cdata_of cd;
      e_icon_id = opt big_of_sexp icon; e_custom_icon = opt by cicon; e_fg = opt color_of fg; e_bg = opt color_of bg;
      e_override_url = opt by url; e_quality_check = opt bt qc; e_history = opt (lst entry_of) hist }
  | s -> failwith ("entry " ^ show_sexp s)
let rec group_of = function
  | L [uuid; name; notes; icon; cicon; L children; tms; cd; exp; das; ea; es; ltve] ->
    { g_uuid = by uuid; g_name = by name; g_notes = opt by notes; g_icon_id = opt big_of_sexp icon;
      g_custom_icon = opt by cicon;
      g_children = List.map (function
          | L [A "entry"; e] -> Coq_inl (entry_of e)
          | L [A "group"; g] -> Coq_inr (group_of g)
          | s -> failwith ("node " ^ show_sexp s)) children;
      g_times = times_of tms; g_custom_data = cdata_of cd; g_is_expanded = bt exp;
      g_default_autotype_sequence = opt by das; g_enable_autotype = opt by ea; g_enable_searching = opt by es;
      g_last_top_visible_entry = opt by ltve }
  | s -> failwith ("group " ^ show_sexp s)
let memprot_of = function
  | L [a; b; c; d; e] -> { mp_title = bt a; mp_username = bt b; mp_password = bt c; mp_url = bt d; mp_notes = bt e }
  | s -> failwith ("memprot " ^ show_sexp s)
let icon_of = function L [u; d] -> { ic_uuid = by u; ic_data = by d } | s -> failwith ("icon " ^ show_sexp s)
let binary_of = function
  | L [i; c; d] -> { bin_id = opt by i; bin_compressed = bt c; bin_content = by d }
  | s -> failwith ("binary " ^ show_sexp s)
let delobj_of = function L [u; t] -> { do_uuid = by u; do_time = zt t } | s -> failwith ("delobj " ^ show_sexp s)
let meta_of = function
  | L [f1; f2; f3; f4; f5; f6; f7; f8; f9; f10; f11; f12; f13; f14; f15; f16; f17; f18; f19; f20; f21; f22; f23; f24; f25; f26] ->
    { m_generator = opt by f1; m_database_name = opt by f2; m_database_name_changed = opt zt f3;
      m_database_description = opt by f4; m_database_description_changed = opt zt f5;
      m_default_username = opt by f6; m_default_username_changed = opt zt f7;
      m_maintenance_history_days = opt big_of_sexp f8; m_color = opt color_of f9; m_master_key_changed = opt zt f10;
      m_master_key_change_rec = opt zt f11; m_master_key_change_force = opt zt f12;
      m_memory_protection = opt memprot_of f13; m_custom_icons = lst icon_of f14;
      m_recyclebin_enabled = opt bt f15; m_recyclebin_uuid = opt by f16; m_recyclebin_changed = opt zt f17;
      m_entry_templates_group = opt by f18; m_entry_templates_group_changed = opt zt f19;
      m_last_selected_group = opt by f20; m_last_top_visible_group = opt by f21;
      m_history_max_items = opt big_of_sexp f22; m_history_max_size = opt big_of_sexp f23;
      m_settings_changed = opt zt f24; m_binaries = lst binary_of f25; m_custom_data = cdata_of f26 }
  | s -> failwith ("meta: 26 fields expected")
let content_of = function
  | L [m; g; d] -> { c_meta = meta_of m; c_root = group_of g; c_deleted = lst delobj_of d }
  | s -> failwith ("content " ^ show_sexp s)

(* ---------- content terms: printing ---------- *)
let sb = atom_of_bytes
let sbool = show_bool
let sn = decimal_of_n
let sz = decimal_of_z
let so = show_opt
let show_value = function
  | VUnprotected t -> "(u " ^ sb t ^ ")" | VProtected b -> "(p " ^ sb b ^ ")" | VBytes b -> "(b " ^ sb b ^ ")"
(* canonical printing for comparisons: map-typed fields sorted by key (byte order) when [sorted] is set *)
let sorted = ref false
let by_key l = if !sorted then List.sort (fun (a, _) (b, _) -> compare (sb a) (sb b)) l else l
let show_times t =
  "(" ^ sbool t.t_expires ^ " " ^ sn t.t_usage ^ " " ^ show_list (fun (k, v) -> "(" ^ sb k ^ " " ^ sz v ^ ")") (by_key t.t_times) ^ ")"
let show_cdata c =
  show_list (fun (k, i) -> "(" ^ sb k ^ " (" ^ so show_value i.cd_value ^ " " ^ so sz i.cd_time ^ "))") (by_key c)
let show_assoc a = "(" ^ so sb a.as_window ^ " " ^ so sb a.as_seq ^ ")"
let show_autotype a = "(" ^ sbool a.at_enabled ^ " " ^ so sb a.at_seq ^ " " ^ show_list show_assoc a.at_assocs ^ ")"
let show_color ((r, g), b) = "(" ^ sn r ^ " " ^ sn g ^ " " ^ sn b ^ ")"
let rec show_entry e =
  "(" ^ String.concat " " [
    sb e.e_uuid; show_list (fun (k, v) -> "(" ^ sb k ^ " " ^ show_value v ^ ")") (by_key e.e_fields);
    so show_autotype e.e_autotype; show_list sb e.e_tags; show_times e.e_times; show_cdata e.e_custom_data;
    so sn e.e_icon_id; so sb e.e_custom_icon; so show_color e.e_fg; so show_color e.e_bg;
    so sb e.e_override_url; so sbool e.e_quality_check; so (show_list show_entry) e.e_history ] ^ ")"
let rec show_group g =
  "(" ^ String.concat " " [
    sb g.g_uuid; sb g.g_name; so sb g.g_notes; so sn g.g_icon_id; so sb g.g_custom_icon;
    show_list (function Coq_inl e -> "(entry " ^ show_entry e ^ ")" | Coq_inr x -> "(group " ^ show_group x ^ ")") g.g_children;
    show_times g.g_times; show_cdata g.g_custom_data; sbool g.g_is_expanded;
    so sb g.g_default_autotype_sequence; so sb g.g_enable_autotype; so sb g.g_enable_searching;
    so sb g.g_last_top_visible_entry ] ^ ")"
let show_memprot m =
  "(" ^ String.concat " " (List.map sbool [m.mp_title; m.mp_username; m.mp_password; m.mp_url; m.mp_notes]) ^ ")"
let show_icon i = "(" ^ sb i.ic_uuid ^ " " ^ sb i.ic_data ^ ")"
let show_binary b = "(" ^ so sb b.bin_id ^ " " ^ sbool b.bin_compressed ^ " " ^ sb b.bin_content ^ ")"
let show_delobj o = "(" ^ sb o.do_uuid ^ " " ^ sz o.do_time ^ ")"
let show_meta m =
  "(" ^ String.concat " " [
    so sb m.m_generator; so sb m.m_database_name; so sz m.m_database_name_changed;
    so sb m.m_database_description; so sz m.m_database_description_changed;
    so sb m.m_default_username; so sz m.m_default_username_changed;
    so sn m.m_maintenance_history_days; so show_color m.m_color; so sz m.m_master_key_changed;
    so sz m.m_master_key_change_rec; so sz m.m_master_key_change_force;
    so show_memprot m.m_memory_protection; show_list show_icon m.m_custom_icons;
    so sbool m.m_recyclebin_enabled; so sb m.m_recyclebin_uuid; so sz m.m_recyclebin_changed;
    so sb m.m_entry_templates_group; so sz m.m_entry_templates_group_changed;
    so sb m.m_last_selected_group; so sb m.m_last_top_visible_group;
    so sn m.m_history_max_items; so sn m.m_history_max_size; so sz m.m_settings_changed;
    show_list show_binary m.m_binaries; show_cdata m.m_custom_data ] ^ ")"
let show_content c =
  "(" ^ show_meta c.c_meta ^ " " ^ show_group c.c_root ^ " " ^ show_list show_delobj c.c_deleted ^ ")"

let show_xerr = function
  | XXml -> "Xml" | XBase64 -> "Base64" | XTimestampFormat -> "TimestampFormat" | XIntFormat -> "IntFormat"
  | XBoolFormat -> "BoolFormat" | XUuid -> "Uuid" | XColor -> "Color" | XCryptography -> "Cryptography"
  | XCompression -> "Compression" | XBadEvent -> "BadEvent" | XEof -> "Eof"

let one = [n_of_int 1]
let gzip (b : n list) : n list =
  match oracle "compress" [one; b] with Some r -> r | None -> failwith "oracle compress"
let gunzip (b : n list) : n list option = oracle "decompress" [one; b]

let () = register "xml-dump" (function
  | [c; ks] ->
    let c = content_of c in
    if XmlDump.dump_fails c then "err InvalidData"
    else begin
      let ks = by ks in
      let (evs, rest) = XmlDump.dump_content gzip c ks in
      "ok " ^ show_list show_ev evs ^ " " ^ string_of_int (List.length ks - List.length rest)
    end
  | _ -> failwith "xml-dump: args")

let () = register "xml-parse" (function
  | L evs :: ks :: flag ->
    sorted := (flag = [A "sorted"]);
    (match XmlParse.parse_events gunzip (List.map ev_of_sexp evs) (by ks) with
     | Ok c -> "ok " ^ show_content c
     | Err e -> "err " ^ show_xerr e
     | Panic _ -> "panic" | OutOfFuel -> "out-of-fuel")
  | _ -> failwith "xml-parse: args")

(* (xml-wf CONTENT) -> true | false : membership in the domain of the round-trip theorem (XmlSpec.wf_content);
   (xml-protected CONTENT) -> (xBYTES ...) : the protected values in document order *)
let () = register "xml-wf" (function
  | [c] -> show_bool (XmlSpec.wf_content gzip gunzip (content_of c))
  | _ -> failwith "xml-wf: args")
let () = register "xml-protected" (function
  | [c] -> show_list sb (XmlSpec.protected_values_in_order (content_of c))
  | _ -> failwith "xml-protected: args")

(* ---------- the XML text layer: what the writer prints for events, what the reader lexes back ---------- *)
let () = register "xml-lex" (function
  | [doc] -> show_list show_ev (XmlText.lex_xml (by doc))
  | _ -> failwith "xml-lex: args")
let () = register "xml-render" (function
  | [L evs] -> atom_of_bytes (XmlText.render_xml (List.map ev_of_sexp evs))
  | _ -> failwith "xml-render: args")

(* C02: KDBX 3.1 and KDB readers (format/Kdbx3.v, format/Kdb.v), primitives served by the harness *)
module List = Stdlib.List
module String = Stdlib.String
module Printf = Stdlib.Printf
open BinNums
open Datatypes
open Driver
open Outcome
open Version
open Kdbx4
open H_kdbx

(* (decrypt3 file elements) *)
let () = register "decrypt3" (function
  | [file; els] ->
    (match Kdbx3.decrypt3 sha256 kdf outer_dec decompress (bytes_of_sexp file) (elements_of_sexp els) with
     | Ok ((cfg, ikey), xml) -> Printf.sprintf "ok %s %s %s" (show_config cfg) (atom_of_bytes ikey) (atom_of_bytes xml)
     | Err e -> "err " ^ show_kerr e
     | Panic _ -> "panic" | OutOfFuel -> "out-of-fuel")
  | _ -> failwith "decrypt3: args")

open Kdb
let show_kval = function
  | KUnprot s -> "(u " ^ atom_of_bytes s ^ ")" | KProt s -> "(p " ^ atom_of_bytes s ^ ")" | KBytes s -> "(b " ^ atom_of_bytes s ^ ")"
let rec show_knode = function
  | KGroup (name, ch) -> Printf.sprintf "(g %s %s)" (atom_of_bytes name) (show_list show_knode ch)
  | KEntry fs ->
    let l = List.map (fun (k, v) -> (atom_of_bytes k, show_kval v)) fs in
    let l = List.sort compare l in
    Printf.sprintf "(e %s)" (show_list (fun (k, v) -> "(" ^ k ^ " " ^ v ^ ")") l)
let show_kdberr = function
  | KEFixedHeader -> "InvalidFixedHeader" | KEFixedCipherId -> "Integrity.InvalidFixedCipherID"
  | KEKey Key.KIncorrectKey -> "IncorrectKey" | KEKey Key.KInvalidKeyFile -> "Key.InvalidKeyFile"
  | KEIncorrectKey -> "IncorrectKey" | KECrypto -> "Cryptography"
  | KEIncompleteGroup -> "Integrity.IncompleteKDBGroup" | KEIncompleteEntry -> "Integrity.IncompleteKDBEntry"
  | KEFieldLength -> "Integrity.InvalidKDBFieldLength" | KEMissingLevel -> "Integrity.MissingKDBGroupLevel"
  | KEInvalidLevel -> "Integrity.InvalidKDBGroupLevel" | KEMissingGroupId -> "Integrity.MissingKDBGroupId"
  | KEInvalidGroupId -> "Integrity.InvalidKDBGroupId" | KEGroupFieldType -> "Integrity.InvalidKDBGroupFieldType"
  | KEEntryFieldType -> "Integrity.InvalidKDBEntryFieldType"

let key_elements_of_sexp s : (Key.keyerr, coq_N list list) outcome =
  match elements_of_sexp s with
  | Ok l -> Ok l | Err _ -> Err Key.KIncorrectKey | Panic n -> Panic n | OutOfFuel -> OutOfFuel

(* (kdb-open file elements) -> ok <minor version> <cipher> <rounds> <tree> *)
let () = register "kdb-open" (function
  | [file; els] ->
    (match kdb_open sha256 kdf outer_dec (bytes_of_sexp file) (key_elements_of_sexp els) with
     | Ok (((v, c), rounds), root) ->
       Printf.sprintf "ok %s %s %s %s" (match v with KDB m -> show_n m | _ -> "?") (show_ocipher c) (decimal_of_n rounds) (show_list show_knode root)
     | Err e -> "err " ^ show_kdberr e
     | Panic _ -> "panic" | OutOfFuel -> "out-of-fuel")
  | _ -> failwith "kdb-open: args")

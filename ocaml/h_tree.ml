(* C13-C17: shared object model (db/Tree.v) and the history handlers *)
open Model
open Driver

let optz_of_sexp = opt_of_sexp z_of_sexp
let times_of_sexp = function
  | L [lm; lc; r] -> { t_lm = optz_of_sexp lm; t_lc = optz_of_sexp lc; t_rest = n_of_sexp r }
  | s -> failwith ("times: " ^ show_sexp s)
let rec entry_of_sexp = function
  | L [A "e"; u; d; t; h] ->
    MkEntry (n_of_sexp u, n_of_sexp d, times_of_sexp t, opt_of_sexp (list_of_sexp entry_of_sexp) h)
  | s -> failwith ("entry: " ^ show_sexp s)

let show_optz = show_opt show_z
let show_times t = Printf.sprintf "(%s %s %s)" (show_optz t.t_lm) (show_optz t.t_lc) (show_n t.t_rest)
let rec show_entry = function
  | MkEntry (u, d, t, h) ->
    Printf.sprintf "(e %s %s %s %s)" (show_n u) (show_n d) (show_times t)
      (match h with None -> "none" | Some l -> "(some " ^ show_list show_entry l ^ ")")

let hop_of_sexp = function
  | L [A "data"; d] -> OpSetData (n_of_sexp d)
  | L [A "rest"; r] -> OpSetRest (n_of_sexp r)
  | L [A "lc"; t] -> OpSetLc (z_of_sexp t)
  | L [A "commit"; t] -> OpCommit (z_of_sexp t)
  | L [A "ext"; x] -> OpAddExternal (entry_of_sexp x)
  | s -> failwith ("hop: " ^ show_sexp s)

let () = register "c17" (function
  | [e; L ops] ->
    let e = entry_of_sexp e in
    let ops = List.map hop_of_sexp ops in
    let flags = ref [] in
    let final = List.fold_left (fun e o ->
        (match o with OpCommit now -> flags := snd (update_history now e) :: !flags | _ -> ());
        apply_hop e o) e ops in
    Printf.sprintf "(flags %s) %s" (show_list show_bool (List.rev !flags)) (show_entry final)
  | _ -> failwith "c17: args")

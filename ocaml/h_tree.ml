(* C13-C17: shared object model (db/Tree.v) and the history handlers *)
module List = Stdlib.List
module String = Stdlib.String
module Printf = Stdlib.Printf
open BinNums
open Datatypes
open Driver
open Tree
open History
open Merge
open Outcome

let optz_of_sexp = opt_of_sexp z_of_sexp
let times_of_sexp = function
  | L [lm; lc; r] -> { t_lm = optz_of_sexp lm; t_lc = optz_of_sexp lc; t_rest = n_of_sexp r }
  | s -> failwith ("times: " ^ show_sexp s)
let rec entry_of_sexp = function
  | L [A "e"; u; d; t; h] ->
    Coq_mkEntry (n_of_sexp u, n_of_sexp d, times_of_sexp t, opt_of_sexp (list_of_sexp entry_of_sexp) h)
  | s -> failwith ("entry: " ^ show_sexp s)

let show_optz = show_opt show_z
let show_times t = Printf.sprintf "(%s %s %s)" (show_optz t.t_lm) (show_optz t.t_lc) (show_n t.t_rest)
let rec show_entry = function
  | Coq_mkEntry (u, d, t, h) ->
    Printf.sprintf "(e %s %s %s %s)" (show_n u) (show_n d) (show_times t)
      (match h with None -> "none" | Some l -> "(some " ^ show_list show_entry l ^ ")")

let hop_of_sexp = function
  | L [A "data"; d] -> OpSetData (n_of_sexp d)
  | L [A "rest"; r] -> OpSetRest (n_of_sexp r)
  | L [A "lc"; t] -> OpSetLc (z_of_sexp t)
  | L [A "commit"; t] -> OpCommit (z_of_sexp t)
  | L [A "ext"; x] -> OpAddExternal (entry_of_sexp x)
  | s -> failwith ("hop: " ^ show_sexp s)

let () = register "c17" (function
  | [e; L ops] ->
    let e = entry_of_sexp e in
    let ops = List.map hop_of_sexp ops in
    let flags = ref [] in
    let final = List.fold_left (fun e o ->
        (match o with OpCommit now -> flags := snd (update_history now e) :: !flags | _ -> ());
        apply_hop e o) e ops in
    Printf.sprintf "(flags %s) %s" (show_list show_bool (List.rev !flags)) (show_entry final)
  | _ -> failwith "c17: args")

(* ---------- merge (C13-C16) ---------- *)
let ginfo_of_sexp = function
  | L [u; d; t] -> { gi_uuid = n_of_sexp u; gi_data = n_of_sexp d; gi_times = times_of_sexp t }
  | s -> failwith ("ginfo: " ^ show_sexp s)
let rec tnode_of_sexp = function
  | L [A "g"; i; L ch] -> NG (ginfo_of_sexp i, List.map tnode_of_sexp ch)
  | (L (A "e" :: _)) as e -> NE (entry_of_sexp e)
  | s -> failwith ("tnode: " ^ show_sexp s)
let dobj_of_sexp = function
  | L [u; t] -> { d_uuid = n_of_sexp u; d_time = z_of_sexp t }
  | s -> failwith ("dobj: " ^ show_sexp s)
let db_of_sexp = function
  | L [A "db"; i; L ch; L del] ->
    { db_root_info = ginfo_of_sexp i; db_children = List.map tnode_of_sexp ch; db_deleted = List.map dobj_of_sexp del }
  | s -> failwith ("db: " ^ show_sexp s)

let show_ginfo i = Printf.sprintf "(%s %s %s)" (show_n i.gi_uuid) (show_n i.gi_data) (show_times i.gi_times)
let rec show_tnode = function
  | NG (i, ch) -> Printf.sprintf "(g %s %s)" (show_ginfo i) (show_list show_tnode ch)
  | NE e -> show_entry e
let show_db d =
  Printf.sprintf "(db %s %s %s)" (show_ginfo d.db_root_info) (show_list show_tnode d.db_children)
    (show_list (fun o -> Printf.sprintf "(%s %s)" (show_n o.d_uuid) (show_z o.d_time)) d.db_deleted)

let show_evtype = function
  | EntryCreated -> "EntryCreated" | EntryDeleted -> "EntryDeleted"
  | EntryLocationUpdated -> "EntryLocationUpdated" | EntryUpdated -> "EntryUpdated"
  | GroupCreated -> "GroupCreated" | GroupDeleted -> "GroupDeleted"
  | GroupLocationUpdated -> "GroupLocationUpdated" | GroupUpdated -> "GroupUpdated"
let show_merr = function
  | EGeneric -> "GenericError" | EFindGroup _ -> "FindGroupError" | EFindEntry _ -> "FindEntryError"
  | EEntryTime -> "EntryModificationTimeNotUpdated" | EGroupTime -> "GroupModificationTimeNotUpdated"
  | EDupHistory -> "DuplicateHistoryEntries"

let show_merge_result = function
  | Ok (d, lg) ->
    let evs = List.filter_map (function Ev (t, u) -> Some (Printf.sprintf "(%s %s)" (show_evtype t) (show_n u)) | Warn -> None) lg in
    let w = List.length (List.filter (function Warn -> true | _ -> false) lg) in
    Printf.sprintf "ok %s (events (%s)) (warnings %d)" (show_db d) (String.concat " " evs) w
  | Err e -> "err " ^ show_merr e
  | Panic _ -> "panic"
  | OutOfFuel -> "timeout"

let () = register "merge" (function
  | [now; d; s] -> show_merge_result (merge (z_of_sexp now) (db_of_sexp d) (db_of_sexp s))
  | _ -> failwith "merge: args")

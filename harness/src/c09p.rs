//! C09, production path (built WITHOUT the hook): consecutive saves use the operating system's
//! random source; the four values are extracted from each output with the strict reader.

use crate::common::*;
use crate::dbgen::*;
use crate::kdbx::key_elements;
use crate::strict;
use keepass::config::InnerCipherConfig;
use keepass::DatabaseKey;

pub fn run(args: &Args) {
    let mut agg = Aggregate::new();
    if crate::hook::ENABLED {
        eprintln!("C09P must run in the build without the hook");
        std::process::exit(2);
    }
    let saves = args.n(8, 64);
    run_cases(&mut agg, args, "production-rng", args.n(27, 200), |_i, rng, _model| {
        let mut o = CaseOutcome::default();
        let (db_a, db_b) = {
            let mut g = G::new(rng, Mode::Lossless, false);
            let a = g.database(true);
            let mut b = g.database(true);
            b.config = a.config.clone();
            (a, b)
        };
        let password = "pw";
        let els = key_elements(Some(password), None);
        let mut seen: Vec<std::collections::HashSet<Vec<u8>>> = vec![Default::default(); 5];
        o.input = format!("(production {} saves={})", crate::kdbx::config_term(&db_a.config), saves);
        for j in 0..saves {
            // same database twice in a row, then alternating with a different one, same key
            let db = if j % 3 == 2 { &db_b } else { &db_a };
            let mut out = Vec::new();
            if let Err(e) = db.save(&mut out, DatabaseKey::new().with_password(password)) {
                o.violation = Some(format!("save failed: {:?}", e));
                return o;
            }
            let s = match strict::read(&out, &els) {
                Ok(s) => s,
                Err(w) => { o.violation = Some(format!("strict reader rejects a saved file: {}", w)); return o; }
            };
            let ik_len = match db.config.inner_cipher_config { InnerCipherConfig::Plain => 1, _ => 32 };
            if s.master_seed.len() != 32 || s.kdf_seed.len() != 32 || s.iv.len() != if s.cipher == 2 { 12 } else { 16 } || s.inner_key.len() != ik_len {
                o.violation = Some("a random value does not have the size its algorithm requires".into());
            }
            let vals = [s.master_seed.clone(), s.iv.clone(), s.kdf_seed.clone(), s.inner_key.clone(), s.payload_encrypted.clone()];
            for (k, v) in vals.iter().enumerate() {
                let name = ["master seed", "IV/nonce", "KDF seed", "inner stream key", "ciphertext"][k];
                if k == 3 && ik_len == 1 { continue; } // a 1-byte key for the 'no inner cipher' case cannot be unique and is unused
                if k < 4 && v.iter().all(|b| *b == 0) {
                    o.violation = Some(format!("{} is all zero", name));
                }
                if !seen[k].insert(v.clone()) {
                    o.violation = Some(format!("{} repeated across saves with the same key (save #{})", name, j));
                }
            }
        }
        o.nontrivial = true;
        o.tags.push(format!("cfg:{}", crate::kdbx::config_term(&db_a.config).split(' ').skip(1).take(3).collect::<Vec<_>>().join("/")));
        o
    });
    write_report(args, &agg, "hook OFF (production random path): per case one configuration and two databases; 8 (quick) / 64 (thorough) consecutive saves with the same key (same database repeatedly, and alternating databases); master seed, IV/nonce, KDF seed, inner stream key and ciphertext extracted by the strict reader must have the required sizes, be non-zero and pairwise distinct across the sequence; each case is non-trivial", serde_json::json!({"saves_per_case": saves}));
}

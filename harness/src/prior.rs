//! History independence.  The properties speak about single calls: what `open` returns for these
//! bytes, what `save` writes for this database.  A result must therefore not depend on what the same
//! thread did before - a failed open, an interrupted save, an earlier file under the same key.  The
//! functions here perform such earlier calls (their own results are ignored) right before a measured
//! call; the streams' evaluators then judge the measured call exactly as before.

use crate::common::Rng;
use keepass::db::{Entry, Node, Value};
use keepass::{Database, DatabaseKey};
use std::io::{Read, Write};

/// delivers `data` in pieces of `chunk` bytes and fails (kind Other) once `fail_at` bytes are out;
/// with `fail_at == data.len()` everything is delivered and the end of the file is an error
pub struct FailingReader<'a> {
    pub data: &'a [u8],
    pub pos: usize,
    pub fail_at: usize,
    pub chunk: usize,
}
impl<'a> Read for FailingReader<'a> {
    fn read(&mut self, buf: &mut [u8]) -> std::io::Result<usize> {
        if self.pos >= self.fail_at {
            return Err(std::io::Error::new(std::io::ErrorKind::Other, "scripted failure"));
        }
        let n = buf.len().min(self.chunk).min(self.fail_at - self.pos);
        buf[..n].copy_from_slice(&self.data[self.pos..self.pos + n]);
        self.pos += n;
        Ok(n)
    }
}

/// accepts `quota` bytes and then fails (kind Other) or, with `zero`, answers Ok(0)
pub struct QuotaSink {
    pub buf: Vec<u8>,
    pub quota: usize,
    pub zero: bool,
}
impl Write for QuotaSink {
    fn write(&mut self, b: &[u8]) -> std::io::Result<usize> {
        let room = self.quota.saturating_sub(self.buf.len());
        if room == 0 && !b.is_empty() {
            return if self.zero { Ok(0) } else { Err(std::io::Error::new(std::io::ErrorKind::Other, "sink full")) };
        }
        let n = b.len().min(room);
        self.buf.extend_from_slice(&b[..n]);
        Ok(n)
    }
    fn flush(&mut self) -> std::io::Result<()> {
        Ok(())
    }
}

fn quiet<T>(f: impl FnOnce() -> T) {
    let _ = std::panic::catch_unwind(std::panic::AssertUnwindSafe(f));
}

/// earlier reads of (variants of) `file` under `key` on this thread: cut short, damaged in its later
/// part, delivered completely by a source that then fails, delivered half by a failing source
pub fn reads(file: &[u8], key: &DatabaseKey, rng: &mut Rng) {
    if file.len() < 64 {
        return;
    }
    let n = file.len();
    for k in 0..4 {
        if !rng.chance(2, 3) {
            continue;
        }
        let use_xml = rng.chance(1, 3);
        match k {
            0 => {
                let cut = n / 3 + rng.below((n - n / 3) as u64) as usize;
                let f = &file[..cut];
                quiet(|| if use_xml { Database::get_xml(&mut &f[..], key.clone()).is_ok() } else { Database::open(&mut &f[..], key.clone()).is_ok() });
            }
            1 => {
                let mut f = file.to_vec();
                let i = n - 1 - rng.below((n / 3).max(1) as u64) as usize;
                f[i] ^= 1 << rng.below(8);
                quiet(|| if use_xml { Database::get_xml(&mut &f[..], key.clone()).is_ok() } else { Database::open(&mut &f[..], key.clone()).is_ok() });
            }
            2 => {
                let mut r = FailingReader { data: file, pos: 0, fail_at: n, chunk: 1 + rng.below(5000) as usize };
                quiet(|| if use_xml { Database::get_xml(&mut r, key.clone()).is_ok() } else { Database::open(&mut r, key.clone()).is_ok() });
            }
            _ => {
                let mut r = FailingReader { data: file, pos: 0, fail_at: 1 + rng.below(n as u64 - 1) as usize, chunk: 1 + rng.below(5000) as usize };
                quiet(|| if use_xml { Database::get_xml(&mut r, key.clone()).is_ok() } else { Database::open(&mut r, key.clone()).is_ok() });
            }
        }
    }
}

/// earlier saves of (a variant of) `db` under `key` on this thread: one that fails while the XML is
/// produced (an entry field of bytes that are not UTF-8), one whose sink fails after some bytes, one
/// whose sink takes nothing.  The random source must not be scripted while this runs.
pub fn saves(db: &Database, key: &DatabaseKey, rng: &mut Rng) {
    if rng.chance(2, 3) {
        let mut d = db.clone();
        let mut e = Entry::new();
        e.fields.insert("Title".into(), Value::Unprotected("earlier".into()));
        e.fields.insert("Blob".into(), Value::Bytes(vec![0xff, 0xfe, 0x00, 0xc0]));
        d.root.children.push(Node::Entry(e));
        quiet(|| d.save(&mut Vec::new(), key.clone()).is_ok());
    }
    if rng.chance(2, 3) {
        let mut s = QuotaSink { buf: Vec::new(), quota: rng.below(600) as usize, zero: false };
        quiet(|| db.save(&mut s, key.clone()).is_ok());
    }
    if rng.chance(1, 3) {
        let mut s = QuotaSink { buf: Vec::new(), quota: 0, zero: true };
        quiet(|| db.save(&mut s, key.clone()).is_ok());
    }
}

//! Generator over the whole public object model of keepass (Database, Meta, Group, Entry, Times,
//! AutoType, History, CustomData, BinaryAttachment, Icon, HeaderAttachment, DeletedObject) and over
//! KDBX4 configurations.  `Mode::Lossless` stays inside the domain on which save/open must be the
//! identity (C03); `Mode::Hostile` ranges over the full Rust value space of the public structs (C12).

use crate::canon::mk_time;
use crate::common::Rng;
use keepass::config::{CompressionConfig, DatabaseConfig, DatabaseVersion, InnerCipherConfig, KdfConfig, OuterCipherConfig};
use keepass::db::{
    AutoType, AutoTypeAssociation, BinaryAttachment, Color, CustomData, CustomDataItem, DeletedObject, Entry, Group, HeaderAttachment,
    History, Icon, MemoryProtection, Meta, Node, Times, Value,
};
use keepass::Database;
use uuid::Uuid;

#[derive(Clone, Copy, PartialEq)]
pub enum Mode {
    Lossless,
    Hostile,
}

pub struct G<'a> {
    pub rng: &'a mut Rng,
    pub mode: Mode,
    pub markers: Vec<Vec<u8>>,          // high-entropy markers planted in string/byte fields (C08)
    pub protected_markers: Vec<Vec<u8>>, // markers planted in protected values
    pub plant: bool,
    pub hostile_tags: Vec<String>,      // which hostile ingredients were used
    /// when set, only hostile ingredients of this class are used (so that a failure can be
    /// attributed to one input class); None = any mixture
    pub only: Option<&'static str>,
}

pub const HOSTILE_CLASSES: &[&str] = &["non-xml-character", "blank-map-key", "time-stamp-name", "empty-icon-or-binary", "bytes-value", "lossy-text", "protected-odd", "odd-key", "subsecond-time"];

const NICE: &[&str] = &["a", "Title", "x y", "<b>&amp;\"'</b>", "line1\nline2", "tab\there", "\u{e9}\u{4e2d}\u{1F511}", " lead", "trail ", "]]>", "a;b", "1", "True", "#000000", "a\rb", "x\r\ny"];

impl<'a> G<'a> {
    pub fn new(rng: &'a mut Rng, mode: Mode, plant: bool) -> G<'a> {
        G { rng, mode, markers: Vec::new(), protected_markers: Vec::new(), plant, hostile_tags: Vec::new(), only: None }
    }
    fn allow(&self, class: &str) -> bool {
        self.mode == Mode::Hostile && self.only.map(|o| o == class).unwrap_or(true)
    }
    fn marker(&mut self, protected: bool) -> String {
        let b = self.rng.bytes(12);
        let s: String = b.iter().map(|x| format!("{:02x}", x)).collect::<String>();
        let s = format!("MK{}", s);
        if protected {
            self.protected_markers.push(s.as_bytes().to_vec());
        } else {
            self.markers.push(s.as_bytes().to_vec());
        }
        // the marker leads a value of varying length (code that treats short values specially:
        // stack buffers, chunked key streams)
        let fill = match self.rng.below(5) { 0 => self.rng.range(60, 140) as usize, 1 => self.rng.range(300, 3000) as usize, _ => 0 };
        if fill > 0 { format!("{}{}", s, "qz".repeat(fill / 2)) } else { s }
    }
    /// a string that survives the XML channel unchanged: non-blank, XML Char only
    pub fn text(&mut self) -> String {
        if (self.allow("non-xml-character") || self.allow("lossy-text")) && self.rng.chance(1, 4) {
            return self.hostile_text();
        }
        if self.plant && self.rng.chance(1, 2) {
            return self.marker(false);
        }
        let mut s = self.rng.pick(NICE).to_string();
        if self.rng.chance(1, 4) {
            s.push_str(&format!("{}", self.rng.below(1000)));
        }
        if self.rng.chance(1, 10) {
            // astral plane, BMP private use, highest allowed code points
            s.push(*self.rng.pick(&['\u{10000}', '\u{10FFFF}', '\u{E000}', '\u{FFFD}', '\u{D7FF}', '\u{85}', '\u{7f}']));
        }
        s
    }
    fn hostile_text(&mut self) -> String {
        let xmlbad = self.allow("non-xml-character");
        let lossy = self.allow("lossy-text");
        let k = if xmlbad && lossy { self.rng.below(9) } else if xmlbad { 2 + self.rng.below(2) } else if lossy { *self.rng.pick(&[0u64, 1, 4, 5, 6, 7, 8]) } else { return "plain".to_string() };
        let (tag, s) = match k {
            0 => ("empty-string", String::new()),
            1 => ("blank-string", self.rng.pick(&[" ", "\t", "\n", "  \n "]).to_string()),
            2 => ("c0-control", format!("a{}b", self.rng.pick(&['\u{1}', '\u{8}', '\u{b}', '\u{c}', '\u{e}', '\u{1f}', '\u{0}']))),
            3 => ("nonchar", format!("a{}b", self.rng.pick(&['\u{FFFE}', '\u{FFFF}']))),
            4 => ("carriage-return", self.rng.pick(&["a\rb", "a\r\nb", "\r"]).to_string()),
            5 => ("c1-control", format!("a{}b", self.rng.pick(&['\u{80}', '\u{9f}', '\u{85}']))),
            6 => ("separators", self.rng.pick(&[";", ",", "a,b;c", ";;"]).to_string()),
            7 => ("markup", self.rng.pick(&["<", "&", "]]>", "<!--", "<?x?>", "&#x1;", "\"'"]).to_string()),
            _ => ("long", "x".repeat(self.rng.range(1000, 5000) as usize)),
        };
        self.hostile_tags.push(tag.to_string());
        s
    }
    pub fn opt_text(&mut self) -> Option<String> {
        if self.rng.chance(1, 2) { Some(self.text()) } else { None }
    }
    pub fn key(&mut self) -> String {
        if (self.allow("blank-map-key") || self.allow("odd-key")) && self.rng.chance(1, 6) {
            let blank = self.allow("blank-map-key");
            let odd = self.allow("odd-key");
            let k = if blank && odd { self.rng.below(4) } else if blank { self.rng.below(2) } else { 2 + self.rng.below(2) };
            let (tag, s) = match k {
                0 => ("empty-key", String::new()),
                1 => ("blank-key", " ".to_string()),
                2 => ("non-ncname-key", self.rng.pick(&["1abc", "a b", "a:b", "<k>"]).to_string()),
                _ => ("dup-like-key", "Title".to_string()),
            };
            self.hostile_tags.push(tag.to_string());
            return s;
        }
        let base = self.rng.pick(&["Title", "UserName", "Password", "URL", "Notes", "otp", "Custom Field", "k\u{e9}y", "a&b"]).to_string();
        if self.rng.chance(1, 3) { format!("{}{}", base, self.rng.below(50)) } else { base }
    }
    pub fn uuid(&mut self) -> Uuid {
        Uuid::from_u128(((self.rng.next() as u128) << 64) | self.rng.next() as u128)
    }
    pub fn time(&mut self) -> chrono::NaiveDateTime {
        // whole seconds across years 1..9999 (seconds since 1970: -62135596800 .. 253402300799)
        let secs: i64 = match self.rng.below(6) {
            0 => -62135596800,
            1 => 253402300799,
            2 => 0,
            3 => -1,
            4 => (self.rng.next() % 315_537_897_599) as i64 - 62135596800,
            _ => 1_500_000_000 + self.rng.below(400_000_000) as i64,
        };
        let t = mk_time(secs);
        if self.allow("subsecond-time") && self.rng.chance(1, 8) {
            self.hostile_tags.push("subsecond-time".into());
            // fractions of a second, and the ends of chrono's own range (far outside years 1..9999)
            return match self.rng.below(6) {
                0 => chrono::NaiveDateTime::MAX,
                1 => chrono::NaiveDateTime::MIN,
                2 => chrono::NaiveDateTime::MAX - chrono::Duration::milliseconds(300),
                3 => mk_time(253402300799) + chrono::Duration::milliseconds(999),
                _ => t + chrono::Duration::nanoseconds(123_456_789),
            };
        }
        t
    }
    pub fn opt_time(&mut self) -> Option<chrono::NaiveDateTime> {
        if self.rng.chance(1, 2) { Some(self.time()) } else { None }
    }
    pub fn usize_(&mut self) -> usize {
        match self.rng.below(5) { 0 => 0, 1 => usize::MAX, 2 => 1, _ => self.rng.below(100_000) as usize }
    }
    pub fn isize_(&mut self) -> isize {
        match self.rng.below(5) { 0 => 0, 1 => isize::MAX, 2 => isize::MIN, 3 => -1, _ => self.rng.below(1000) as isize - 500 }
    }
    pub fn color(&mut self) -> Color {
        let c = |r: &mut Rng| match r.below(4) { 0 => 0u8, 1 => 255, 2 => r.below(16) as u8, _ => r.below(256) as u8 };
        Color { r: c(self.rng), g: c(self.rng), b: c(self.rng) }
    }
    pub fn bytes_nonempty(&mut self) -> Vec<u8> {
        if self.allow("empty-icon-or-binary") && self.rng.chance(1, 5) {
            self.hostile_tags.push("empty-bytes".into());
            return Vec::new();
        }
        if self.plant && self.rng.chance(1, 2) {
            return self.marker(false).into_bytes();
        }
        let n = self.rng.range(1, 40) as usize;
        self.rng.bytes(n)
    }
    pub fn value(&mut self, allow_empty_unprotected: bool) -> Value {
        let k = self.rng.below(10);
        if self.allow("bytes-value") && k == 0 {
            let b = match self.rng.below(3) { 0 => { self.hostile_tags.push("bytes-value-utf8".into()); b"plain".to_vec() } 1 => { self.hostile_tags.push("bytes-value-invalid-utf8".into()); vec![0xff, 0xfe, 0x41] } _ => { self.hostile_tags.push("bytes-value-empty".into()); vec![] } };
            return Value::Bytes(b);
        }
        if k <= 3 {
            if self.allow("protected-odd") && self.rng.chance(1, 5) {
                let (tag, b) = match self.rng.below(3) { 0 => ("protected-empty", vec![]), 1 => ("protected-invalid-utf8", vec![0x61, 0xff, 0x62]), _ => ("protected-control", vec![1, 2, 3]) };
                self.hostile_tags.push(tag.into());
                return Value::Protected(b.into());
            }
            let s = if self.plant && self.rng.chance(2, 3) { self.marker(true) } else {
                // protected values are base64 in the file: any non-empty UTF-8 is representable
                self.rng.pick(&["secret", "p\u{e4}ss w\u{f6}rd", "\u{1}\u{2}ctl", " ", "same", "same", "\r\n"]).to_string()
            };
            return Value::Protected(s.as_bytes().into());
        }
        if allow_empty_unprotected && self.rng.chance(1, 8) {
            return Value::Unprotected(String::new());
        }
        Value::Unprotected(self.text())
    }
    pub fn times(&mut self) -> Times {
        let mut t = Times::default();
        // every struct also occurs with all of its members at their default (zero) value: that is
        // where writers tend to omit an element and readers to fill in something else
        if self.rng.chance(1, 8) { return t; }
        t.expires = self.rng.chance(1, 2);
        t.usage_count = self.usize_();
        for name in ["CreationTime", "LastModificationTime", "LastAccessTime", "LocationChanged", "ExpiryTime"] {
            if self.rng.chance(4, 5) {
                t.times.insert(name.to_string(), self.time());
            }
        }
        if self.rng.chance(1, 6) {
            t.times.insert("CustomStamp".into(), self.time());
        }
        if self.allow("time-stamp-name") && self.rng.chance(1, 8) {
            let (tag, name) = match self.rng.below(4) { 0 => ("time-name-empty", ""), 1 => ("time-name-not-xml-name", "1 bad name"), 2 => ("time-name-expires", "Expires"), _ => ("time-name-usagecount", "UsageCount") };
            self.hostile_tags.push(tag.into());
            t.times.insert(name.to_string(), self.time());
        }
        t
    }
    pub fn custom_data(&mut self) -> CustomData {
        let mut c = CustomData::default();
        for _ in 0..self.rng.below(3) {
            let k = self.key();
            let item = CustomDataItem { value: if self.rng.chance(3, 4) { Some(self.value(true)) } else { None }, last_modification_time: self.opt_time() };
            c.items.insert(k, item);
        }
        c
    }
    pub fn entry(&mut self, with_history: bool) -> Entry {
        let mut e = Entry::default();
        e.uuid = self.uuid();
        if self.rng.chance(1, 12) { return e; }   // nothing but a UUID
        for _ in 0..self.rng.below(5) {
            let k = self.key();
            let v = self.value(false);
            e.fields.insert(k, v);
        }
        if self.rng.chance(1, 2) {
            e.autotype = Some(AutoType {
                enabled: self.rng.chance(1, 2),
                sequence: self.opt_text(),
                associations: (0..self.rng.below(3)).map(|_| AutoTypeAssociation { window: self.opt_text(), sequence: self.opt_text() }).collect(),
            });
        }
        for _ in 0..self.rng.below(3) {
            let t = if (self.allow("non-xml-character") || self.allow("lossy-text")) && self.rng.chance(1, 3) { self.hostile_text() } else if self.rng.chance(1, 4) {
                // blanks at the edges of a tag are content like any other character
                let n = self.rng.below(20);
                match self.rng.below(3) { 0 => format!("tag{} ", n), 1 => format!(" tag{}", n), _ => format!("\ttag {}", n) }
            } else { format!("tag{}", self.rng.below(20)) };
            e.tags.push(t);
        }
        e.times = self.times();
        e.custom_data = self.custom_data();
        if self.rng.chance(1, 2) { e.icon_id = Some(self.usize_()); }
        if self.rng.chance(1, 3) { e.custom_icon_uuid = Some(self.uuid()); }
        if self.rng.chance(1, 3) { e.foreground_color = Some(self.color()); }
        if self.rng.chance(1, 3) { e.background_color = Some(self.color()); }
        e.override_url = self.opt_text();
        if self.rng.chance(1, 2) { e.quality_check = Some(self.rng.chance(1, 2)); }
        if with_history && self.rng.chance(1, 2) {
            let mut h = History::default();
            for _ in 0..self.rng.below(3) {
                let x = self.entry(false);
                h.add_entry(x);
            }
            e.history = Some(h);
        }
        e
    }
    pub fn group(&mut self, depth: u32) -> Group {
        let mut g = Group::default();
        g.uuid = self.uuid();
        if depth < 2 && self.rng.chance(1, 12) { return g; }   // nothing but a UUID (never the root)
        g.name = if self.rng.chance(1, 10) { String::new() } else { self.text() };
        g.notes = self.opt_text();
        if self.rng.chance(1, 2) { g.icon_id = Some(self.usize_()); }
        if self.rng.chance(1, 3) { g.custom_icon_uuid = Some(self.uuid()); }
        g.times = self.times();
        g.custom_data = self.custom_data();
        g.is_expanded = self.rng.chance(1, 2);
        g.default_autotype_sequence = self.opt_text();
        g.enable_autotype = self.opt_text();
        g.enable_searching = self.opt_text();
        if self.rng.chance(1, 3) { g.last_top_visible_entry = Some(self.uuid()); }
        for _ in 0..self.rng.below(4) {
            if depth > 0 && self.rng.chance(1, 3) {
                let c = self.group(depth - 1);
                g.children.push(Node::Group(c));
            } else {
                let c = self.entry(true);
                g.children.push(Node::Entry(c));
            }
        }
        g
    }
    pub fn meta(&mut self) -> Meta {
        let mut m = Meta::default();
        if self.rng.chance(1, 10) { return m; }
        m.generator = self.opt_text();
        m.database_name = self.opt_text();
        m.database_name_changed = self.opt_time();
        m.database_description = self.opt_text();
        m.database_description_changed = self.opt_time();
        m.default_username = self.opt_text();
        m.default_username_changed = self.opt_time();
        if self.rng.chance(1, 2) { m.maintenance_history_days = Some(self.usize_()); }
        if self.rng.chance(1, 2) { m.color = Some(self.color()); }
        m.master_key_changed = self.opt_time();
        if self.rng.chance(1, 2) { m.master_key_change_rec = Some(self.isize_()); }
        if self.rng.chance(1, 2) { m.master_key_change_force = Some(self.isize_()); }
        if self.rng.chance(1, 2) {
            m.memory_protection = Some(MemoryProtection { protect_title: self.rng.chance(1, 2), protect_username: self.rng.chance(1, 2), protect_password: self.rng.chance(1, 2), protect_url: self.rng.chance(1, 2), protect_notes: self.rng.chance(1, 2) });
        }
        for _ in 0..self.rng.below(3) {
            let ic = Icon { uuid: self.uuid(), data: self.bytes_nonempty() };
            m.custom_icons.icons.push(ic);
        }
        if self.rng.chance(1, 2) { m.recyclebin_enabled = Some(self.rng.chance(1, 2)); }
        if self.rng.chance(1, 2) { m.recyclebin_uuid = Some(self.uuid()); }
        m.recyclebin_changed = self.opt_time();
        if self.rng.chance(1, 2) { m.entry_templates_group = Some(self.uuid()); }
        m.entry_templates_group_changed = self.opt_time();
        if self.rng.chance(1, 2) { m.last_selected_group = Some(self.uuid()); }
        if self.rng.chance(1, 2) { m.last_top_visible_group = Some(self.uuid()); }
        if self.rng.chance(1, 2) { m.history_max_items = Some(self.usize_()); }
        if self.rng.chance(1, 2) { m.history_max_size = Some(self.usize_()); }
        m.settings_changed = self.opt_time();
        for i in 0..self.rng.below(3) {
            let compressed = self.rng.chance(1, 2);
            let content = if compressed && self.rng.chance(1, 4) { Vec::new() } else { self.bytes_nonempty() };
            m.binaries.binaries.push(BinaryAttachment { identifier: if self.rng.chance(2, 3) { Some(format!("{}", i)) } else { None }, compressed, content });
        }
        m.custom_data = self.custom_data();
        m
    }
    pub fn config(&mut self, cheap: bool) -> DatabaseConfig {
        // (cheap: AES-KDF mostly, and Argon2 in both variants and both versions with small memory)
        let argon_version = if self.rng.chance(1, 2) { argon2::Version::Version10 } else { argon2::Version::Version13 };
        let kdf = match self.rng.below(if cheap { 7 } else { 9 }) {
            0 | 1 | 2 => KdfConfig::Aes { rounds: *self.rng.pick(&[0u64, 1, 2, 7, 100]) },
            3 => KdfConfig::Aes { rounds: self.rng.below(3000) },
            4 | 5 => KdfConfig::Argon2 { iterations: self.rng.range(1, 2), memory: *self.rng.pick(&[64 * 1024u64, 256 * 1024, 65 * 1024 + 13]), parallelism: self.rng.range(1, 2) as u32, version: argon_version },
            6 => KdfConfig::Argon2id { iterations: self.rng.range(1, 2), memory: *self.rng.pick(&[64 * 1024u64, 128 * 1024]), parallelism: self.rng.range(1, 2) as u32, version: argon_version },
            7 => KdfConfig::Argon2 { iterations: self.rng.range(1, 2), memory: *self.rng.pick(&[8 * 1024 * 1024u64, 64 * 1024, 2 * 1024 * 1024 + 13]), parallelism: self.rng.range(1, 2) as u32, version: if self.rng.chance(1, 2) { argon2::Version::Version10 } else { argon2::Version::Version13 } },
            _ => KdfConfig::Argon2id { iterations: self.rng.range(1, 2), memory: *self.rng.pick(&[8 * 1024u64, 32 * 1024]), parallelism: self.rng.range(1, 2) as u32, version: if self.rng.chance(1, 2) { argon2::Version::Version10 } else { argon2::Version::Version13 } },
        };
        DatabaseConfig {
            version: DatabaseVersion::KDB4(*self.rng.pick(&[0u16, 1, 1, 0, 65535])),
            outer_cipher_config: match self.rng.below(3) { 0 => OuterCipherConfig::AES256, 1 => OuterCipherConfig::Twofish, _ => OuterCipherConfig::ChaCha20 },
            compression_config: if self.rng.chance(1, 2) { CompressionConfig::GZip } else { CompressionConfig::None },
            inner_cipher_config: match self.rng.below(3) { 0 => InnerCipherConfig::Plain, 1 => InnerCipherConfig::Salsa20, _ => InnerCipherConfig::ChaCha20 },
            kdf_config: kdf,
        }
    }
    pub fn database(&mut self, cheap_kdf: bool) -> Database {
        let cfg = self.config(cheap_kdf);
        let mut db = Database::new(cfg);
        db.root = self.group(2);
        db.meta = self.meta();
        for _ in 0..self.rng.below(3) {
            let o = DeletedObject { uuid: self.uuid(), deletion_time: self.time() };
            db.deleted_objects.objects.push(o);
        }
        for _ in 0..self.rng.below(3) {
            let content = if self.rng.chance(1, 5) { Vec::new() } else { self.bytes_nonempty() };
            db.header_attachments.push(HeaderAttachment { flags: self.rng.below(3) as u8, content });
        }
        db
    }
}

//! C18: traversal and path lookup.  Random trees are built as real `Group` values and as model
//! terms; iteration order, typed listings and shared/mutable lookups are compared.

use crate::common::*;
use keepass::db::{Entry, Group, Node, NodeRef, NodeRefMut, Value};
use secstr::SecStr;
use uuid::Uuid;

const TITLES: &[&[u8]] = &[b"", b"A", b"B", b"AB", b" ", b"a", "\u{e9}".as_bytes(), "\u{1F511}".as_bytes(), b"Root"];
const BAD_UTF8: &[&[u8]] = &[&[0xff], &[0xc0, 0x80], &[0xed, 0xa0, 0x80], &[0x41, 0x80], &[0xf4, 0x90, 0x80, 0x80], &[0xe2, 0x82]];

struct Gen<'a> {
    rng: &'a mut Rng,
    next_uuid: u128,
    dup_uuids: bool,
    titles_seen: Vec<Vec<u8>>,
    n_nodes: u32,
}

impl<'a> Gen<'a> {
    fn uuid(&mut self) -> Uuid {
        // mostly fresh; sometimes the identifier of an earlier node (a subtree attached twice, a copied
        // entry) or nil (what KDB files and `Default` carry): traversal and lookup do not depend on it
        if self.dup_uuids && self.next_uuid > 0 && self.rng.chance(1, 6) {
            return Uuid::from_u128(1 + self.rng.below(self.next_uuid as u64) as u128);
        }
        if self.dup_uuids && self.rng.chance(1, 10) {
            return Uuid::nil();
        }
        self.next_uuid += 1;
        Uuid::from_u128(self.next_uuid)
    }
    fn title(&mut self) -> Vec<u8> {
        let t = self.rng.pick(TITLES).to_vec();
        self.titles_seen.push(t.clone());
        t
    }
    fn entry(&mut self) -> (Entry, String) {
        let mut e = Entry::default();
        e.uuid = self.uuid();
        self.n_nodes += 1;
        let k = self.rng.below(10);
        let tv = if k == 0 {
            "none".to_string()
        } else if k <= 5 {
            let t = self.title();
            e.fields.insert("Title".into(), Value::Unprotected(String::from_utf8(t.clone()).unwrap()));
            format!("(u {})", hexatom(&t))
        } else if k <= 7 {
            let t = if self.rng.chance(1, 2) { self.title() } else { self.rng.pick(BAD_UTF8).to_vec() };
            e.fields.insert("Title".into(), Value::Protected(SecStr::new(t.clone())));
            format!("(p {})", hexatom(&t))
        } else {
            let t = self.title();
            e.fields.insert("Title".into(), Value::Bytes(t.clone()));
            format!("(b {})", hexatom(&t))
        };
        // a decoy field that must not influence lookups
        if self.rng.chance(1, 3) {
            e.fields.insert("UserName".into(), Value::Unprotected("A".into()));
        }
        let s = format!("(e {} {})", e.uuid.as_u128(), tv);
        (e, s)
    }
    fn group(&mut self, depth: u32, max_fan: u64) -> (Group, String) {
        let mut g = Group::default();
        g.uuid = self.uuid();
        self.n_nodes += 1;
        let name = self.title();
        g.name = String::from_utf8(name.clone()).unwrap();
        let mut kids = Vec::new();
        let fan = if depth == 0 { 0 } else { self.rng.range(if self.n_nodes == 1 { 1 } else { 0 }, max_fan) };
        for _ in 0..fan {
            if depth > 1 && self.rng.chance(2, 5) {
                let (c, s) = self.group(depth - 1, max_fan);
                g.children.push(Node::Group(c));
                kids.push(s);
            } else {
                let (c, s) = self.entry();
                g.children.push(Node::Entry(c));
                kids.push(s);
            }
        }
        let s = format!("(g {} {} {})", g.uuid.as_u128(), hexatom(&name), slist(kids));
        (g, s)
    }
}

fn node_uuid(n: &NodeRef) -> u128 {
    match n {
        NodeRef::Group(g) => g.uuid.as_u128(),
        NodeRef::Entry(e) => e.uuid.as_u128(),
    }
}

fn gen_path(rng: &mut Rng, root: &Group, titles: &[Vec<u8>]) -> Vec<String> {
    // walk down existing titles most of the time, with occasional foreign steps
    let mut path = Vec::new();
    let mut cur: Option<&Group> = Some(root);
    let len = rng.below(5);
    for _ in 0..len {
        let mut step: Option<String> = None;
        if let Some(g) = cur {
            if !g.children.is_empty() && rng.chance(4, 5) {
                let c = rng.pick(&g.children);
                match c {
                    Node::Group(cg) => {
                        step = Some(cg.name.clone());
                        cur = Some(cg);
                    }
                    Node::Entry(ce) => {
                        step = ce.get_title().map(|s| s.to_string());
                        cur = None;
                    }
                }
            }
        }
        let s = match step {
            Some(s) => s,
            None => {
                cur = None;
                if titles.is_empty() || rng.chance(1, 4) {
                    "nonexistent".to_string()
                } else {
                    String::from_utf8(rng.pick(titles).clone()).unwrap_or_default()
                }
            }
        };
        path.push(s);
    }
    path
}

pub fn run(args: &Args) {
    let n = args.n(5_000, 200_000);
    let mut agg = Aggregate::new();
    run_cases(&mut agg, args, "trees", n, |_i, rng, model| {
        let depth = rng.range(1, 6) as u32;
        let fan = rng.range(1, 6);
        let (mut root, tree_s, titles) = {
            let dup_uuids = rng.chance(1, 3);
            let mut g = Gen { rng, next_uuid: 0, dup_uuids, titles_seen: Vec::new(), n_nodes: 0 };
            let (root, s) = g.group(depth, fan);
            (root, s, g.titles_seen)
        };
        let npaths = 20;
        let paths: Vec<Vec<String>> = (0..npaths).map(|_| gen_path(rng, &root, &titles)).collect();
        let paths_s = slist(paths.iter().map(|p| slist(p.iter().map(|s| hexatom(s.as_bytes())))));
        let input = format!("(c18 {} {})", tree_s, paths_s);

        // implementation
        let it: Vec<String> = root.iter().map(|n| node_uuid(&n).to_string()).collect();
        let es: Vec<String> = root.entries().iter().map(|e| e.uuid.as_u128().to_string()).collect();
        let gs: Vec<String> = root.groups().iter().map(|g| g.uuid.as_u128().to_string()).collect();
        let mut hits = 0;
        let gets: Vec<String> = paths
            .iter()
            .map(|p| {
                let pr: Vec<&str> = p.iter().map(|s| s.as_str()).collect();
                let r = root.get(&pr).map(|n| node_uuid(&n).to_string());
                if r.is_some() && !p.is_empty() {
                    hits += 1;
                }
                sopt(r)
            })
            .collect();
        // adaptors that delegate to nth/skip/step_by on an iterator that has already advanced must walk the
        // same sequence as repeated next()
        let mut adaptor_bad: Option<String> = None;
        {
            let reference: Vec<u128> = root.iter().map(|n| node_uuid(&n)).collect();
            for k in 1..=3usize {
                let got: Vec<u128> = root.iter().step_by(k).map(|n| node_uuid(&n)).collect();
                let want: Vec<u128> = reference.iter().cloned().step_by(k).collect();
                if got != want { adaptor_bad = Some(format!("iter().step_by({}) yields {} nodes, the plain walk {} of {}", k, got.len(), want.len(), reference.len())); }
            }
            for taken in 0..reference.len().min(4) {
                let mut it = root.iter();
                for _ in 0..taken { it.next(); }
                let n = rng.below(3) as usize;
                let got_nth = it.nth(n).map(|x| node_uuid(&x));
                let rest: Vec<u128> = it.map(|x| node_uuid(&x)).collect();
                let want_nth = reference.get(taken + n).cloned();
                let want_rest: Vec<u128> = reference.iter().cloned().skip(taken + n + 1).collect();
                if got_nth != want_nth || rest != want_rest { adaptor_bad = Some(format!("after {} next() calls, nth({}) and the rest of the walk differ from the plain walk", taken, n)); }
            }
        }
        let es_mut: Vec<String> = root.entries_mut().iter().map(|e| e.uuid.as_u128().to_string()).collect();
        let gs_mut: Vec<String> = root.groups_mut().iter().map(|g| g.uuid.as_u128().to_string()).collect();
        let getmuts: Vec<String> = paths
            .iter()
            .map(|p| {
                let pr: Vec<&str> = p.iter().map(|s| s.as_str()).collect();
                sopt(root.get_mut(&pr).map(|n| match n {
                    NodeRefMut::Group(g) => g.uuid.as_u128().to_string(),
                    NodeRefMut::Entry(e) => e.uuid.as_u128().to_string(),
                }))
            })
            .collect();
        let impl_s = format!(
            "(iter {}) (entries {}) (groups {}) (get {}) (getmut {})",
            slist(it.clone()),
            slist(es.clone()),
            slist(gs.clone()),
            slist(gets),
            slist(getmuts)
        );
        let model_s = model.eval(&input);

        let mut o = CaseOutcome::default();
        o.nontrivial = it.len() >= 4 && hits >= 1;
        o.tags.push(format!("nodes:{}", match it.len() { 0..=1 => "1", 2..=5 => "2-5", 6..=20 => "6-20", 21..=100 => "21-100", _ => ">100" }));
        o.tags.push(format!("depth:{}", depth));
        o.tags.push(format!("lookup-hits:{}", match hits { 0 => "0", 1..=5 => "1-5", _ => ">5" }));
        if let Some(w) = adaptor_bad { o.violation = Some(w); }
        if es != es_mut || gs != gs_mut {
            o.violation = Some("entries_mut/groups_mut list differs from entries/groups".into());
        }
        if impl_s != model_s {
            o.disagreement = Some((impl_s, model_s));
            // the property fixes these outputs uniquely and the model is proved to produce them:
            // a disagreement on an input is a failing input of C18.
            o.violation = Some("traversal/lookup result differs from the proved model".into());
        }
        o.input = input;
        o
    });
    write_report(
        args,
        &agg,
        "random trees (depth 1..6, fan-out 1..6, in a third of the cases with repeated and nil UUIDs, titles from a 9-word pool incl. empty/blank/non-ASCII, protected titles with invalid UTF-8, byte titles, missing titles) x 20 paths walked along existing titles with foreign steps; non-trivial = at least 4 nodes and at least one non-empty path that resolves; distinct = distinct (tree, paths) text",
        serde_json::json!({}),
    );
}

//! C13-C16: merge.  Two replicas are derived from a random well-formed ancestor by independent edit
//! histories under one logical clock with pairwise distinct seconds; `Database::merge` and the
//! extracted `merge` model run on the same pair and are compared (result class, destination tree
//! with child order, tombstone list, event list, number of warnings).  The properties themselves
//! are evaluated on the implementation's results.

use crate::canon::*;
use crate::common::*;
use keepass::db::{DeletedObject, Entry, Group, History, Node, Times, Value};
use keepass::Database;
use std::collections::{HashMap, HashSet};
use std::sync::mpsc;
use std::time::Duration;
use uuid::Uuid;

pub struct Ctx {
    pub clock: i64,
    pub next_uuid: u128,
}
impl Ctx {
    fn tick(&mut self) -> i64 {
        self.clock += 1;
        self.clock
    }
    fn uuid(&mut self) -> Uuid {
        self.next_uuid += 1;
        Uuid::from_u128(self.next_uuid)
    }
}

fn times_at(t: i64, rng: &mut Rng) -> Times {
    let mut x = Times::default();
    x.set_creation(mk_time(t));
    x.set_last_modification(mk_time(t));
    x.set_location_changed(mk_time(t));
    if rng.chance(1, 2) {
        x.set_last_access(mk_time(t));
    }
    if rng.chance(1, 4) {
        x.expires = true;
        x.set_expiry(mk_time(t + 1000));
    }
    x
}

fn commit(e: &mut Entry) {
    let mut snap = e.clone();
    snap.history = None;
    e.history.get_or_insert_with(History::default).add_entry(snap);
}

fn new_entry(ctx: &mut Ctx, rng: &mut Rng) -> Entry {
    let mut e = Entry::default();
    e.uuid = ctx.uuid();
    let t = ctx.tick();
    e.times = times_at(t, rng);
    e.fields.insert("Title".into(), Value::Unprotected(format!("e{}", e.uuid.as_u128())));
    if rng.chance(1, 2) {
        e.fields.insert("Password".into(), Value::Protected(format!("pw{}", rng.below(3)).as_bytes().into()));
    }
    e.history = Some(History::default());
    if rng.chance(3, 4) {
        commit(&mut e);
    }
    e
}

fn new_group(ctx: &mut Ctx, rng: &mut Rng) -> Group {
    let mut g = Group::default();
    g.uuid = ctx.uuid();
    let t = ctx.tick();
    g.times = times_at(t, rng);
    g.name = format!("g{}", g.uuid.as_u128());
    g
}

fn gen_group(ctx: &mut Ctx, rng: &mut Rng, depth: u32) -> Group {
    let mut g = new_group(ctx, rng);
    let n = rng.below(4);
    for _ in 0..n {
        if depth > 0 && rng.chance(1, 2) {
            let c = gen_group(ctx, rng, depth - 1);
            g.children.push(Node::Group(c));
        } else {
            let mut e = new_entry(ctx, rng);
            // some entries have an older committed version too
            if rng.chance(1, 3) {
                edit_entry(&mut e, ctx.tick(), rng);
            }
            g.children.push(Node::Entry(e));
        }
    }
    g
}

fn edit_entry(e: &mut Entry, t: i64, rng: &mut Rng) {
    // values come from small pools so that both replicas can arrive at the same content by
    // different histories, and an edit can restore an earlier value
    match rng.below(6) {
        0 => {
            e.fields.insert("UserName".into(), Value::Unprotected(format!("u{}", rng.below(3))));
        }
        1 => {
            e.fields.insert("Title".into(), Value::Unprotected(format!("t{}", rng.below(3))));
        }
        2 => {
            if rng.chance(1, 2) { e.tags.push(format!("tag{}", rng.below(2))); } else { e.tags.clear(); }
        }
        3 => {
            e.fields.insert("Password".into(), Value::Protected(format!("p{}", rng.below(3)).as_bytes().into()));
        }
        4 => {
            // revert to the content of an earlier committed version, if there is one
            let old = e.history.as_ref().and_then(|h| {
                let items = h.get_entries();
                if items.len() >= 2 { Some(items[rng.below(items.len() as u64) as usize].clone()) } else { None }
            });
            match old {
                Some(o) => {
                    e.fields = o.fields;
                    e.tags = o.tags;
                }
                None => {
                    e.fields.insert("Notes".into(), Value::Unprotected(format!("n{}", t)));
                }
            }
        }
        _ => {
            e.fields.insert("UserName".into(), Value::Unprotected(format!("u{}", t)));
        }
    }
    e.times.set_last_modification(mk_time(t));
    commit(e);
}

pub fn collect(g: &Group, entries: &mut Vec<Uuid>, groups: &mut Vec<Uuid>) {
    for c in &g.children {
        match c {
            Node::Entry(e) => entries.push(e.uuid),
            Node::Group(s) => {
                groups.push(s.uuid);
                collect(s, entries, groups);
            }
        }
    }
}

fn parent_of<'a>(g: &'a mut Group, id: Uuid) -> Option<&'a mut Group> {
    let here = g.children.iter().any(|c| match c {
        Node::Entry(e) => e.uuid == id,
        Node::Group(s) => s.uuid == id,
    });
    if here {
        return Some(g);
    }
    for c in g.children.iter_mut() {
        if let Node::Group(s) = c {
            if let Some(p) = parent_of(s, id) {
                return Some(p);
            }
        }
    }
    None
}
fn group_mut<'a>(g: &'a mut Group, id: Uuid) -> Option<&'a mut Group> {
    if g.uuid == id {
        return Some(g);
    }
    for c in g.children.iter_mut() {
        if let Node::Group(s) = c {
            if let Some(p) = group_mut(s, id) {
                return Some(p);
            }
        }
    }
    None
}
fn entry_mut<'a>(g: &'a mut Group, id: Uuid) -> Option<&'a mut Entry> {
    for c in g.children.iter_mut() {
        match c {
            Node::Entry(e) if e.uuid == id => return Some(e),
            Node::Group(s) => {
                if let Some(p) = entry_mut(s, id) {
                    return Some(p);
                }
            }
            _ => {}
        }
    }
    None
}
fn subtree_uuids(g: &Group) -> HashSet<Uuid> {
    let (mut e, mut gs) = (Vec::new(), Vec::new());
    collect(g, &mut e, &mut gs);
    let mut s: HashSet<Uuid> = gs.into_iter().collect();
    s.insert(g.uuid);
    s
}
fn take_child(p: &mut Group, id: Uuid) -> Option<Node> {
    let i = p.children.iter().position(|c| match c {
        Node::Entry(e) => e.uuid == id,
        Node::Group(s) => s.uuid == id,
    })?;
    Some(p.children.remove(i))
}

/// One random operation of the property's quantifier on a replica.  Returns its name.
pub fn random_op(db: &mut Database, ctx: &mut Ctx, rng: &mut Rng, allow_nonempty_group_delete: bool) -> String {
    let (mut es, mut gs) = (Vec::new(), Vec::new());
    collect(&db.root, &mut es, &mut gs);
    let root_id = db.root.uuid;
    let mut all_groups = gs.clone();
    all_groups.push(root_id);
    let t = ctx.tick();
    for _attempt in 0..8 {
        match rng.below(10) {
            9 => {
                // a node is used, not edited: usage counter and access time change, the modification time does
                // not (what KeePass does when an entry is opened or a group is expanded)
                if !es.is_empty() && rng.chance(1, 2) {
                    let e = entry_mut(&mut db.root, *rng.pick(&es)).unwrap();
                    e.times.usage_count += 1;
                    e.times.set_last_access(mk_time(t));
                    return "touch-entry".into();
                }
                let id = if gs.is_empty() || rng.chance(1, 5) { root_id } else { *rng.pick(&gs) };
                let g = group_mut(&mut db.root, id).unwrap();
                g.times.usage_count += 1;
                if rng.chance(1, 3) { g.times.expires = !g.times.expires; }
                g.times.set_last_access(mk_time(t));
                return "touch-group".into();
            }
            0 | 1 if !es.is_empty() => {
                let id = *rng.pick(&es);
                edit_entry(entry_mut(&mut db.root, id).unwrap(), t, rng);
                return "edit-entry".into();
            }
            2 => {
                let pid = *rng.pick(&all_groups);
                let mut e = new_entry(ctx, rng);
                e.times = times_at(t, rng);
                if e.history.as_ref().map(|h| !h.get_entries().is_empty()).unwrap_or(false) {
                    e.history = Some(History::default());
                    commit(&mut e);
                }
                group_mut(&mut db.root, pid).unwrap().children.push(Node::Entry(e));
                return "add-entry".into();
            }
            3 => {
                let pid = *rng.pick(&all_groups);
                let mut g = new_group(ctx, rng);
                g.times = times_at(t, rng);
                group_mut(&mut db.root, pid).unwrap().children.push(Node::Group(g));
                return "add-group".into();
            }
            4 if !es.is_empty() => {
                let id = *rng.pick(&es);
                let pid = *rng.pick(&all_groups);
                let cur = parent_of(&mut db.root, id).unwrap().uuid;
                if cur == pid {
                    continue;
                }
                let mut n = take_child(parent_of(&mut db.root, id).unwrap(), id).unwrap();
                if let Node::Entry(e) = &mut n {
                    e.times.set_location_changed(mk_time(t));
                }
                group_mut(&mut db.root, pid).unwrap().children.push(n);
                return "move-entry".into();
            }
            5 if !gs.is_empty() => {
                let id = *rng.pick(&gs);
                let pid = *rng.pick(&all_groups);
                let sub = subtree_uuids(group_mut(&mut db.root, id).unwrap());
                let cur = parent_of(&mut db.root, id).unwrap().uuid;
                if sub.contains(&pid) || cur == pid {
                    continue;
                }
                let mut n = take_child(parent_of(&mut db.root, id).unwrap(), id).unwrap();
                if let Node::Group(g) = &mut n {
                    g.times.set_location_changed(mk_time(t));
                }
                group_mut(&mut db.root, pid).unwrap().children.push(n);
                return "move-group".into();
            }
            6 if !es.is_empty() => {
                let id = *rng.pick(&es);
                take_child(parent_of(&mut db.root, id).unwrap(), id).unwrap();
                db.deleted_objects.objects.push(DeletedObject { uuid: id, deletion_time: mk_time(t) });
                return "delete-entry".into();
            }
            7 if !gs.is_empty() => {
                let id = *rng.pick(&gs);
                let empty = group_mut(&mut db.root, id).unwrap().children.is_empty();
                if empty {
                    take_child(parent_of(&mut db.root, id).unwrap(), id).unwrap();
                    db.deleted_objects.objects.push(DeletedObject { uuid: id, deletion_time: mk_time(t) });
                    return "delete-empty-group".into();
                } else if allow_nonempty_group_delete && rng.chance(1, 3) {
                    // empty the group first (every child moved to the group's parent, each move at its own
                    // time), then delete the now-empty group: the other replica still has the children inside
                    let pid = parent_of(&mut db.root, id).unwrap().uuid;
                    let kids: Vec<Uuid> = group_mut(&mut db.root, id).unwrap().children.iter().map(|c| match c { Node::Entry(e) => e.uuid, Node::Group(g) => g.uuid }).collect();
                    for k in kids {
                        let tk = ctx.tick();
                        let mut n = take_child(group_mut(&mut db.root, id).unwrap(), k).unwrap();
                        match &mut n { Node::Entry(e) => e.times.set_location_changed(mk_time(tk)), Node::Group(g) => g.times.set_location_changed(mk_time(tk)) }
                        group_mut(&mut db.root, pid).unwrap().children.push(n);
                    }
                    let td = ctx.tick();
                    take_child(parent_of(&mut db.root, id).unwrap(), id).unwrap();
                    db.deleted_objects.objects.push(DeletedObject { uuid: id, deletion_time: mk_time(td) });
                    return "empty-out-and-delete-group".into();
                } else if allow_nonempty_group_delete {
                    // delete a whole subtree the way KeePass does: a tombstone for every node in it,
                    // listed parent-first or child-first
                    let n = take_child(parent_of(&mut db.root, id).unwrap(), id).unwrap();
                    let mut ids = Vec::new();
                    if let Node::Group(g) = &n {
                        ids.push(g.uuid);
                        let (mut e2, mut g2) = (Vec::new(), Vec::new());
                        collect(g, &mut e2, &mut g2);
                        ids.extend(g2);
                        ids.extend(e2);
                    }
                    match rng.below(3) {
                        0 => ids.reverse(),
                        1 => {
                            // random order of the tombstones
                            for i in (1..ids.len()).rev() {
                                let j = rng.below(i as u64 + 1) as usize;
                                ids.swap(i, j);
                            }
                        }
                        _ => {}
                    }
                    for u in ids {
                        db.deleted_objects.objects.push(DeletedObject { uuid: u, deletion_time: mk_time(t) });
                    }
                    return "delete-group-subtree".into();
                }
                continue;
            }
            8 => {
                // any group, the root group included
                let id = if gs.is_empty() || rng.chance(1, 5) { root_id } else { *rng.pick(&gs) };
                let g = group_mut(&mut db.root, id).unwrap();
                if rng.chance(2, 3) {
                    // (an empty name is legal)
                    g.name = if rng.chance(1, 6) { String::new() } else { format!("renamed{}", t) };
                } else if rng.chance(1, 3) {
                    // only the (custom) icon changes
                    if rng.chance(1, 2) { g.custom_icon_uuid = if g.custom_icon_uuid.is_some() && rng.chance(1, 3) { None } else { Some(Uuid::from_u128(0xC0DE_0000 + t as u128)) }; }
                    else { g.icon_id = Some(t as usize % 60); }
                } else {
                    g.notes = Some(format!("notes{}", t));
                    g.is_expanded = !g.is_expanded;
                }
                g.times.set_last_modification(mk_time(t));
                return "rename-group".into();
            }
            _ => continue,
        }
    }
    "noop".into()
}

pub fn ancestor(rng: &mut Rng) -> (Database, Ctx) {
    let mut ctx = Ctx { clock: 1000, next_uuid: 0 };
    let mut db = Database::new(Default::default());
    let depth = rng.below(5) as u32;
    db.root = gen_group(&mut ctx, rng, depth);
    db.root.name = "Root".into();
    // a tombstone of a node nobody has, already in the ancestor
    if rng.chance(1, 3) {
        let u = ctx.uuid();
        db.deleted_objects.objects.push(DeletedObject { uuid: u, deletion_time: mk_time(ctx.tick()) });
    }
    (db, ctx)
}

// ---------------- model terms ----------------
pub fn group_term(int: &mut Interner, g: &Group) -> String {
    let kids: Vec<String> = g
        .children
        .iter()
        .map(|c| match c {
            Node::Entry(e) => int.entry(e),
            Node::Group(s) => group_term(int, s),
        })
        .collect();
    format!("(g {} ({}))", ginfo_term(int, g), kids.join(" "))
}
pub fn ginfo_term(int: &mut Interner, g: &Group) -> String {
    format!("({} {} {})", g.uuid.as_u128(), int.data(group_data_s(g)), int.times(&g.times))
}
pub fn db_term(int: &mut Interner, db: &Database) -> String {
    let kids: Vec<String> = db
        .root
        .children
        .iter()
        .map(|c| match c {
            Node::Entry(e) => int.entry(e),
            Node::Group(s) => group_term(int, s),
        })
        .collect();
    let del: Vec<String> = db
        .deleted_objects
        .objects
        .iter()
        .map(|o| format!("({} {})", o.uuid.as_u128(), time_secs(&o.deletion_time)))
        .collect();
    format!("(db {} ({}) ({}))", ginfo_term(int, &db.root), kids.join(" "), del.join(" "))
}

// ---------------- running the implementation ----------------
pub enum MergeRun {
    Ok(Database, Vec<(String, u128)>, usize),
    Err(String),
    Panic(String),
    Timeout,
}

pub fn run_merge(dest: &Database, src: &Database) -> MergeRun {
    let (tx, rx) = mpsc::channel();
    let mut d = dest.clone();
    let s = src.clone();
    std::thread::spawn(move || {
        let r = std::panic::catch_unwind(std::panic::AssertUnwindSafe(|| {
            let r = d.merge(&s);
            (d, r)
        }));
        let _ = tx.send(r);
    });
    match rx.recv_timeout(Duration::from_secs(5)) {
        Err(_) => MergeRun::Timeout,
        Ok(Err(p)) => {
            let msg = p
                .downcast_ref::<String>()
                .cloned()
                .or_else(|| p.downcast_ref::<&str>().map(|s| s.to_string()))
                .unwrap_or_default();
            MergeRun::Panic(msg)
        }
        Ok(Ok((d, Ok(log)))) => {
            let evs = log
                .events
                .iter()
                .map(|e| (format!("{:?}", e.event_type), e.node_uuid.as_u128()))
                .collect();
            MergeRun::Ok(d, evs, log.warnings.len())
        }
        Ok(Ok((_, Err(e)))) => {
            let k = format!("{:?}", e);
            let kind = k.split(|c| c == '(' || c == ' ').next().unwrap_or("").to_string();
            MergeRun::Err(kind)
        }
    }
}

pub fn run_term(int: &mut Interner, r: &MergeRun) -> String {
    match r {
        MergeRun::Ok(d, evs, w) => format!(
            "ok {} (events ({})) (warnings {})",
            db_term(int, d),
            evs.iter().map(|(t, u)| format!("({} {})", t, u)).collect::<Vec<_>>().join(" "),
            w
        ),
        MergeRun::Err(k) => format!("err {}", k),
        MergeRun::Panic(_) => "panic".into(),
        MergeRun::Timeout => "timeout".into(),
    }
}

/// A generated case: ancestor + two histories.
pub struct Case {
    pub dest: Database,
    pub src: Database,
    pub ops: Vec<String>,
}

/// A focused scenario from the quantifier "deletions concurrent with edits, moves and additions below
/// the deleted node": one replica moves a node X out of a group G and then deletes G with what is
/// left in it; the other replica edits X (and maybe G) at some other time.  Returns false when the
/// ancestor has no non-root group with a child.
fn focused_move_out_delete(a: &mut Database, b: &mut Database, ctx: &mut Ctx, rng: &mut Rng, ops: &mut Vec<String>) -> bool {
    // candidates: (group G below the root, child X of G)
    fn cands(g: &Group, is_root: bool, out: &mut Vec<(Uuid, Uuid, bool)>) {
        for c in &g.children {
            if let Node::Group(s) = c { cands(s, false, out); }
            if !is_root {
                match c { Node::Entry(e) => out.push((g.uuid, e.uuid, false)), Node::Group(s) => out.push((g.uuid, s.uuid, true)) }
            }
        }
    }
    let mut cs = Vec::new();
    cands(&a.root, true, &mut cs);
    if cs.is_empty() { return false; }
    let (g, x, x_is_group) = cs[rng.below(cs.len() as u64) as usize];
    let mover_is_a = rng.chance(1, 2);
    let edit_first = rng.chance(1, 2);
    let mut edit = |db: &mut Database, ctx: &mut Ctx, rng: &mut Rng, tag: &str, ops: &mut Vec<String>| {
        let t = ctx.tick();
        if x_is_group {
            let gr = group_mut(&mut db.root, x).unwrap();
            gr.name = format!("renamed{}", t);
            gr.times.set_last_modification(mk_time(t));
            ops.push(format!("{}:rename-group", tag));
        } else {
            edit_entry(entry_mut(&mut db.root, x).unwrap(), t, rng);
            ops.push(format!("{}:edit-entry", tag));
        }
        if rng.chance(1, 3) {
            let t2 = ctx.tick();
            let gg = group_mut(&mut db.root, g).unwrap();
            gg.notes = Some(format!("notes{}", t2));
            gg.times.set_last_modification(mk_time(t2));
            ops.push(format!("{}:rename-group", tag));
        }
    };
    let (mover, editor, mt, et) = if mover_is_a { (&mut *a, &mut *b, "d", "s") } else { (&mut *b, &mut *a, "s", "d") };
    if edit_first { edit(editor, ctx, rng, et, ops); }
    // move X out of G to the root, then delete G and everything still in it
    let tm = ctx.tick();
    let mut n = take_child(group_mut(&mut mover.root, g).unwrap(), x).unwrap();
    match &mut n { Node::Entry(e) => e.times.set_location_changed(mk_time(tm)), Node::Group(s) => s.times.set_location_changed(mk_time(tm)) }
    mover.root.children.push(n);
    ops.push(format!("{}:move-out", mt));
    let td = ctx.tick();
    let gone = take_child(parent_of(&mut mover.root, g).unwrap(), g).unwrap();
    let mut ids = vec![g];
    if let Node::Group(gg) = &gone { let (mut e2, mut g2) = (Vec::new(), Vec::new()); collect(gg, &mut e2, &mut g2); ids.extend(g2); ids.extend(e2); }
    if rng.chance(1, 2) { ids.reverse(); }
    for u in ids { mover.deleted_objects.objects.push(DeletedObject { uuid: u, deletion_time: mk_time(td) }); }
    ops.push(format!("{}:delete-group-subtree", mt));
    if !edit_first { edit(editor, ctx, rng, et, ops); }
    true
}

pub fn gen_case(rng: &mut Rng, max_ops: u64, subtree_delete: bool) -> Case {
    let (anc, mut ctx) = ancestor(rng);
    ctx.clock = 2000;
    let mut a = anc.clone();
    let mut b = anc;
    let mut ops = Vec::new();
    // one case in eight (subtree streams) starts with the focused scenario, followed by a few random operations
    let focused = subtree_delete && rng.chance(1, 8) && focused_move_out_delete(&mut a, &mut b, &mut ctx, rng, &mut ops);
    let n = if focused { rng.below(3) } else { rng.below(max_ops + 1) };
    for _ in 0..n {
        // interleave under one clock so that time stamps are pairwise distinct across replicas
        if rng.chance(1, 2) {
            ops.push(format!("d:{}", random_op(&mut a, &mut ctx, rng, subtree_delete)));
        } else {
            ops.push(format!("s:{}", random_op(&mut b, &mut ctx, rng, subtree_delete)));
        }
    }
    // the boundary of "later": sometimes a deletion recorded by the source carries exactly the time at which
    // the destination last modified that node (the node then stays, and no tombstone is taken over)
    if subtree_delete && rng.chance(1, 6) {
        let mut changed = false;
        for o in b.deleted_objects.objects.iter_mut() {
            let lm = match (group_ref(&a.root, o.uuid), entry_ref(&a.root, o.uuid)) {
                (Some(g), _) => g.times.get_last_modification().cloned(),
                (_, Some(e)) => e.times.get_last_modification().cloned(),
                _ => None,
            };
            if let Some(t) = lm { if rng.chance(1, 2) { o.deletion_time = t; changed = true; } }
        }
        if changed { ops.push("s:deletion-at-the-destination's-modification-time".into()); }
    }
    Case { dest: a, src: b, ops }
}

fn uuid_counts(db: &Database) -> HashMap<Uuid, u32> {
    let (mut es, mut gs) = (Vec::new(), Vec::new());
    collect(&db.root, &mut es, &mut gs);
    let mut m = HashMap::new();
    for u in es.into_iter().chain(gs.into_iter()) {
        *m.entry(u).or_insert(0) += 1;
    }
    m
}

fn parents(g: &Group, m: &mut HashMap<Uuid, Uuid>) {
    for c in &g.children {
        match c {
            Node::Entry(e) => {
                m.insert(e.uuid, g.uuid);
            }
            Node::Group(s) => {
                m.insert(s.uuid, g.uuid);
                parents(s, m);
            }
        }
    }
}
fn group_ref<'a>(g: &'a Group, id: Uuid) -> Option<&'a Group> {
    if g.uuid == id {
        return Some(g);
    }
    for c in &g.children {
        if let Node::Group(s) = c {
            if let Some(x) = group_ref(s, id) {
                return Some(x);
            }
        }
    }
    None
}
fn entry_ref<'a>(g: &'a Group, id: Uuid) -> Option<&'a Entry> {
    for c in &g.children {
        match c {
            Node::Entry(e) if e.uuid == id => return Some(e),
            Node::Group(s) => {
                if let Some(x) = entry_ref(s, id) {
                    return Some(x);
                }
            }
            _ => {}
        }
    }
    None
}

/// Known-finding class F15: the source moved a group g later than the destination did, to a parent
/// that the destination has inside g's own subtree (concurrent cross moves; relocating would make
/// a cycle).  Computed from the pair, not from the failure.
pub fn would_be_cycle(dest: &Database, src: &Database) -> bool {
    let (mut pd, mut ps) = (HashMap::new(), HashMap::new());
    parents(&dest.root, &mut pd);
    parents(&src.root, &mut ps);
    for (g, sp) in &ps {
        let (Some(dp), Some(gd), Some(gs)) = (pd.get(g), group_ref(&dest.root, *g), group_ref(&src.root, *g)) else { continue };
        if dp == sp {
            continue;
        }
        let later = match (gs.times.get_location_changed(), gd.times.get_location_changed()) {
            (Some(a), Some(b)) => a > b,
            _ => false,
        };
        if later && subtree_uuids(gd).contains(sp) {
            return true;
        }
    }
    false
}

/// the two replicas nest a pair of groups in opposite order: X is below Y in the destination and Y is
/// below X in the source (computed from the inputs alone)
pub fn opposite_nesting(dest: &Database, src: &Database) -> bool {
    fn below(g: &Group, anc: &mut Vec<Uuid>, out: &mut HashSet<(Uuid, Uuid)>) {
        for c in &g.children {
            if let Node::Group(s) = c {
                for a in anc.iter() { out.insert((s.uuid, *a)); }
                anc.push(s.uuid);
                below(s, anc, out);
                anc.pop();
            }
        }
    }
    let (mut bd, mut bs) = (HashSet::new(), HashSet::new());
    below(&dest.root, &mut Vec::new(), &mut bd);
    below(&src.root, &mut Vec::new(), &mut bs);
    bd.iter().any(|(x, y)| bs.contains(&(*y, *x)))
}

/// Evaluate the four merge properties on the implementation.  Returns (violation, class).
pub fn evaluate(prop: &str, c: &Case, first: &MergeRun) -> Option<(String, Option<String>)> {
    let cycle = would_be_cycle(&c.dest, &c.src);
    let opposite = opposite_nesting(&c.dest, &c.src);
    let cls = |_s: &str| -> Option<String> {
        if cycle { Some("would-be-cycle".into()) } else if opposite { Some("opposite-nesting".into()) } else { None }
    };
    match first {
        MergeRun::Timeout => {
            if prop == "C16" {
                return Some(("merge did not return within 5 s".into(), None));
            }
            return None;
        }
        MergeRun::Panic(m) => {
            if prop == "C16" {
                return Some((format!("merge panicked: {}", m), None));
            }
            return None;
        }
        MergeRun::Err(k) => {
            if prop == "C16" {
                let w = format!("merge of related replicas failed: {}", k);
                let c = cls(&w);
                return Some((w, c));
            }
            if prop == "C14" {
                // a failed merge leaves the destination without the source's newer versions and new nodes
                let w = format!("merge of related replicas failed ({}): the destination does not carry the newest versions", k);
                let c = cls(&w);
                return Some((w, c));
            }
            return None;
        }
        MergeRun::Ok(d1, _evs, _) => {
            match prop {
                "C13" => {
                    // second merge of the same source: no events, no change
                    match run_merge(d1, &c.src) {
                        MergeRun::Ok(d2, evs2, _) => {
                            if !evs2.is_empty() || &d2 != d1 {
                                let w = format!("second merge of the same source is not a no-op: {} events", evs2.len());
                                let c = cls(&w);
                                return Some((w, c));
                            }
                        }
                        _ => return Some(("second merge of the same source failed".into(), None)),
                    }
                    match run_merge(d1, d1) {
                        MergeRun::Ok(d2, evs2, _) => {
                            if !evs2.is_empty() || &d2 != d1 {
                                return Some(("merging the merge result into itself is not a no-op".into(), None));
                            }
                        }
                        _ => return Some(("merging the merge result into itself failed".into(), None)),
                    }
                    match run_merge(&c.dest, &c.dest) {
                        MergeRun::Ok(d2, evs2, _) => {
                            if !evs2.is_empty() || d2 != c.dest {
                                return Some(("self-merge is not a no-op".into(), None));
                            }
                        }
                        _ => return Some(("self-merge failed".into(), None)),
                    }
                    None
                }
                "C15" => {
                    let before = uuid_counts(&c.dest);
                    let after = uuid_counts(d1);
                    let dest_tomb: HashSet<Uuid> = c.dest.deleted_objects.objects.iter().map(|o| o.uuid).collect();
                    let after_tomb: HashSet<Uuid> = d1.deleted_objects.objects.iter().map(|o| o.uuid).collect();
                    // tombstone list only grows (prefix preserved)
                    let n0 = c.dest.deleted_objects.objects.len();
                    if d1.deleted_objects.objects.len() < n0 || d1.deleted_objects.objects[..n0] != c.dest.deleted_objects.objects[..] {
                        return Some(("destination tombstones were dropped or reordered".into(), None));
                    }
                    // no resurrection
                    for u in &dest_tomb {
                        if after.contains_key(u) && !before.contains_key(u) {
                            return Some((format!("node {} tombstoned in the destination was re-created", u.as_u128()), None));
                        }
                    }
                    // never both present and tombstoned
                    for u in &after_tomb {
                        if after.contains_key(u) {
                            return Some((format!("node {} is both present and tombstoned after the merge", u.as_u128()), None));
                        }
                    }
                    // entry rule: deletion wins iff strictly newer than the destination's last modification
                    for o in &c.src.deleted_objects.objects {
                        if dest_tomb.contains(&o.uuid) {
                            continue;
                        }
                        let mut dd = c.dest.clone();
                        if let Some(e) = entry_mut(&mut dd.root, o.uuid) {
                            // the entry as it is in the destination after the update phase: take its lm from d1 if present
                            let lm_dest = *e.times.get_last_modification().unwrap();
                            // the merge may have updated the entry from the source before deletions; the rule uses the merged lm
                            let mut d1c = d1.clone();
                            let lm_merged = entry_mut(&mut d1c.root, o.uuid).map(|e| *e.times.get_last_modification().unwrap());
                            let gone = !after.contains_key(&o.uuid);
                            let _ = lm_dest;
                            match lm_merged {
                                Some(lm) => {
                                    // still present: the deletion must not be newer
                                    if lm < o.deletion_time {
                                        return Some((format!("entry {} survived a strictly newer deletion", o.uuid.as_u128()), None));
                                    }
                                    if after_tomb.contains(&o.uuid) {
                                        return Some((format!("entry {} kept but tombstone added", o.uuid.as_u128()), None));
                                    }
                                }
                                None => {
                                    if gone && !after_tomb.contains(&o.uuid) {
                                        return Some((format!("entry {} removed without a tombstone", o.uuid.as_u128()), None));
                                    }
                                }
                            }
                        }
                    }
                    // group rule: a tombstoned group that is still present must be justified - it is not
                    // empty, or it was modified at or after the deletion
                    for o in &c.src.deleted_objects.objects {
                        if dest_tomb.contains(&o.uuid) {
                            continue;
                        }
                        if let Some(g) = group_ref(&d1.root, o.uuid) {
                            if g.uuid != d1.root.uuid && g.children.is_empty() {
                                if let Some(lm) = g.times.get_last_modification() {
                                    if *lm < o.deletion_time {
                                        return Some((format!("group {} is empty and older than its deletion but survived", o.uuid.as_u128()), None));
                                    }
                                }
                            }
                            if after_tomb.contains(&o.uuid) {
                                return Some((format!("group {} kept but tombstone added", o.uuid.as_u128()), None));
                            }
                        } else if group_ref(&c.dest.root, o.uuid).is_some() {
                            // removed: it must have been strictly older than the deletion
                            let lm = group_ref(&c.dest.root, o.uuid).unwrap().times.get_last_modification().cloned();
                            let slm = group_ref(&c.src.root, o.uuid).and_then(|g| g.times.get_last_modification().cloned());
                            let newest = match (lm, slm) { (Some(a), Some(b)) => Some(a.max(b)), (a, None) => a, (None, b) => b };
                            if let Some(lm) = newest {
                                if lm >= o.deletion_time && lm == group_ref(&c.dest.root, o.uuid).unwrap().times.get_last_modification().cloned().unwrap() {
                                    return Some((format!("group {} was deleted although modified at or after the deletion", o.uuid.as_u128()), None));
                                }
                            }
                        }
                    }
                    None
                }
                "C14" => {
                    let (mut pd, mut ps, mut pr) = (HashMap::new(), HashMap::new(), HashMap::new());
                    parents(&c.dest.root, &mut pd);
                    parents(&c.src.root, &mut ps);
                    parents(&d1.root, &mut pr);
                    let dest_tomb: HashSet<Uuid> = c.dest.deleted_objects.objects.iter().map(|o| o.uuid).collect();
                    // is a source node under (or itself) a group the destination tombstoned?
                    let under_deleted = |mut u: Uuid| -> bool {
                        loop {
                            if dest_tomb.contains(&u) {
                                return true;
                            }
                            match ps.get(&u) {
                                Some(p) => u = *p,
                                None => return false,
                            }
                        }
                    };
                    let (mut es, mut gs) = (Vec::new(), Vec::new());
                    collect(&c.src.root, &mut es, &mut gs);
                    for u in &es {
                        let se = entry_ref(&c.src.root, *u).unwrap();
                        let Some(re) = entry_ref(&d1.root, *u) else { continue }; // deleted or never created: C15/C16
                        match entry_ref(&c.dest.root, *u) {
                            Some(de) => {
                                let (slm, dlm) = (se.times.get_last_modification().unwrap(), de.times.get_last_modification().unwrap());
                                let winner = if slm > dlm { se } else { de };
                                if entry_data_s(re) != entry_data_s(winner) || re.times.get_last_modification() != winner.times.get_last_modification() {
                                    return Some((format!("entry {} does not carry the fields/modification time of the side that modified it last", u.as_u128()), None));
                                }
                                // history = union by modification time, newest first, each once
                                let lms = |e: &Entry| -> Vec<i64> {
                                    e.history.as_ref().map(|h| h.get_entries().iter().map(|x| time_secs(x.times.get_last_modification().unwrap())).collect()).unwrap_or_default()
                                };
                                let loser = if slm > dlm { de } else { se };
                                let mut want: Vec<i64> = lms(se).into_iter().chain(lms(de).into_iter()).collect();
                                // ... including the losing side's current version
                                want.push(time_secs(loser.times.get_last_modification().unwrap()));
                                want.sort();
                                want.dedup();
                                want.reverse();
                                if slm != dlm && lms(re) != want {
                                    return Some((format!("entry {}: merged history is not the union of both histories by time, newest first", u.as_u128()), None));
                                }
                                // every item equals the item it came from
                                if let Some(h) = &re.history {
                                    for it in h.get_entries() {
                                        let t = it.times.get_last_modification();
                                        let mut loser_cur = loser.clone();
                                        loser_cur.history = None;
                                        let src_it = de.history.iter().chain(se.history.iter()).flat_map(|h| h.get_entries().iter()).chain(std::iter::once(&loser_cur)).find(|x| x.times.get_last_modification() == t);
                                        // the location-changed stamp is "handled separately" by the merge; a version is
                                        // its fields, its other time stamps and its modification time
                                        let same_version = |a: &Entry, b: &Entry| {
                                            let (mut a, mut b) = (a.clone(), b.clone());
                                            a.times.times.remove("LocationChanged");
                                            b.times.times.remove("LocationChanged");
                                            a == b
                                        };
                                        if slm != dlm && src_it.map(|x| !same_version(x, it)).unwrap_or(true) {
                                            return Some((format!("entry {}: a merged history item is not one of the original items", u.as_u128()), None));
                                        }
                                    }
                                }
                                // placement: last mover wins unless the source parent lies under a destination-deleted group
                                let (sp, dp) = (ps[u], pd[u]);
                                let (slc, dlc) = (se.times.get_location_changed().unwrap(), de.times.get_location_changed().unwrap());
                                let want_parent = if sp != dp && slc > dlc && !under_deleted(sp) { sp } else { dp };
                                if pr.get(u) != Some(&want_parent) {
                                    return Some((format!("entry {} is not in the group chosen by the side that moved it last", u.as_u128()), None));
                                }
                            }
                            None => {
                                // only in the source: created under the same parent
                                if pr.get(u) != Some(&ps[u]) {
                                    return Some((format!("entry {} (source only) was not created under the same parent", u.as_u128()), None));
                                }
                                if re != se {
                                    return Some((format!("entry {} (source only) was not copied verbatim", u.as_u128()), None));
                                }
                            }
                        }
                    }
                    // the root group is a group present on both sides as well
                    if c.dest.root.uuid == c.src.root.uuid {
                        if let (Some(slm), Some(dlm)) = (c.src.root.times.get_last_modification(), c.dest.root.times.get_last_modification()) {
                            let winner = if slm > dlm { &c.src.root } else { &c.dest.root };
                            if group_data_s(&d1.root) != group_data_s(winner) {
                                return Some((format!("the root group does not carry the name/notes/icon/settings of the side that modified it last"), None));
                            }
                        }
                    }
                    for u in &gs {
                        let sg = group_ref(&c.src.root, *u).unwrap();
                        let Some(rg) = group_ref(&d1.root, *u) else { continue };
                        match group_ref(&c.dest.root, *u) {
                            Some(dg) => {
                                let (slm, dlm) = (sg.times.get_last_modification().unwrap(), dg.times.get_last_modification().unwrap());
                                let winner = if slm > dlm { sg } else { dg };
                                if group_data_s(rg) != group_data_s(winner) {
                                    return Some((format!("group {} does not carry the name/notes/icon/settings of the side that modified it last", u.as_u128()), None));
                                }
                            }
                            None => {
                                if pr.get(u) != Some(&ps[u]) {
                                    return Some((format!("group {} (source only) was not created under the same parent", u.as_u128()), None));
                                }
                            }
                        }
                    }
                    None
                }
                "C16" => {
                    let after = uuid_counts(d1);
                    if let Some((u, _)) = after.iter().find(|(_, n)| **n > 1) {
                        return Some((format!("uuid {} occurs more than once after the merge", u.as_u128()), None));
                    }
                    let after_tomb: HashSet<Uuid> = d1.deleted_objects.objects.iter().map(|o| o.uuid).collect();
                    for u in uuid_counts(&c.dest).keys() {
                        if !after.contains_key(u) && !after_tomb.contains(u) {
                            return Some((format!("destination node {} vanished without a tombstone", u.as_u128()), None));
                        }
                    }
                    // every source node is present, tombstoned, or under a group the destination deleted
                    let dest_tomb: HashSet<Uuid> = c.dest.deleted_objects.objects.iter().map(|o| o.uuid).collect();
                    fn walk(g: &Group, under_deleted: bool, dest_tomb: &HashSet<Uuid>, after: &HashMap<Uuid, u32>, after_tomb: &HashSet<Uuid>) -> Option<Uuid> {
                        for c in &g.children {
                            let (u, sub) = match c {
                                Node::Entry(e) => (e.uuid, None),
                                Node::Group(s) => (s.uuid, Some(s)),
                            };
                            let ud = under_deleted || dest_tomb.contains(&u);
                            if !after.contains_key(&u) && !after_tomb.contains(&u) && !under_deleted {
                                return Some(u);
                            }
                            if let Some(s) = sub {
                                if let Some(x) = walk(s, ud, dest_tomb, after, after_tomb) {
                                    return Some(x);
                                }
                            }
                        }
                        None
                    }
                    if let Some(u) = walk(&c.src.root, false, &dest_tomb, &after, &after_tomb) {
                        return Some((format!("source node {} is neither present nor tombstoned nor under a destination-deleted group", u.as_u128()), None));
                    }
                    None
                }
                _ => None,
            }
        }
    }
}

fn plain_group(id: u128, t: i64) -> Group {
    let mut g = Group::default();
    g.uuid = Uuid::from_u128(id);
    g.name = format!("g{}", id);
    g.times.set_creation(mk_time(t));
    g.times.set_last_modification(mk_time(t));
    g.times.set_location_changed(mk_time(t));
    g
}
fn move_group(db: &mut Database, id: u128, to: u128, t: i64) {
    let id = Uuid::from_u128(id);
    let mut n = take_child(parent_of(&mut db.root, id).unwrap(), id).unwrap();
    if let Node::Group(g) = &mut n {
        g.times.set_location_changed(mk_time(t));
    }
    group_mut(&mut db.root, Uuid::from_u128(to)).unwrap().children.push(n);
}

/// Hand-built witnesses of the findings listed in KNOWN_FINDINGS.json; they run first on every check.
pub fn witnesses() -> Vec<Case> {
    let mut out = Vec::new();
    // F15b: root -> [G2 -> [G3], G5 -> [G8]];  destination: G3 under G8;  source: G5 under G3, then G8 to the root
    {
        let mut anc = Database::new(Default::default());
        anc.root = plain_group(1, 1001);
        let mut g2 = plain_group(2, 1002);
        g2.children.push(Node::Group(plain_group(3, 1003)));
        let mut g5 = plain_group(5, 1005);
        g5.children.push(Node::Group(plain_group(8, 1008)));
        anc.root.children.push(Node::Group(g2));
        anc.root.children.push(Node::Group(g5));
        let mut d = anc.clone();
        let mut s = anc;
        move_group(&mut d, 3, 8, 2002);
        move_group(&mut s, 5, 3, 2005);
        move_group(&mut s, 8, 1, 2007);
        out.push(Case { dest: d, src: s, ops: vec!["d:move-group".into(), "s:move-group".into(), "s:move-group".into()] });
    }
    {
        // found by a proof attempt (MergeSuccess: `merge_errors_are_conflicts` is false of the model): the
        // ancestor is root/{Y/{G}, J}; the destination moved G and J away and back (newer location stamps, same
        // parents); the source moved G to the root, J into G, Y into J and created K inside G.  While the
        // source's G is merged, the recursion for J relocates Y - a group on the caller's path - and the
        // creation of K below the old path fails
        let mut anc = Database::new(Default::default());
        anc.root = plain_group(1, 1001);
        let mut y = plain_group(2, 1002);
        y.children.push(Node::Group(plain_group(3, 1003)));
        anc.root.children.push(Node::Group(y));
        anc.root.children.push(Node::Group(plain_group(5, 1005)));
        let mut d = anc.clone();
        let mut s = anc;
        move_group(&mut d, 3, 2, 2020);
        move_group(&mut d, 5, 1, 2020);
        move_group(&mut s, 3, 1, 2010);
        move_group(&mut s, 5, 3, 2011);
        move_group(&mut s, 2, 5, 2012);
        group_mut(&mut s.root, Uuid::from_u128(3)).unwrap().children.push(Node::Group(plain_group(8, 2005)));
        out.push(Case { dest: d, src: s, ops: vec!["d:move-group".into(), "d:move-group".into(), "s:move-group".into(), "s:move-group".into(), "s:move-group".into(), "s:add-group".into()] });
    }
    out
}

/// a chain of `depth` nested groups below the root; both replicas add a group at the bottom and the
/// source renames a group half-way down: every lookup by UUID has to descend the whole chain
fn deep_chain(rng: &mut Rng) -> Case {
    let depth = rng.range(26, 60) as u128;
    let build = |extra: u128, t_extra: i64| -> Database {
        let mut bottom = plain_group(depth + 1, 1001 + depth as i64);
        bottom.children.push(Node::Group(plain_group(extra, t_extra)));
        let mut g = bottom;
        for id in (2..=depth).rev() {
            let mut p = plain_group(id, 1000 + id as i64);
            p.children.push(Node::Group(g));
            g = p;
        }
        let mut db = Database::new(Default::default());
        db.root = plain_group(1, 1001);
        db.root.children.push(Node::Group(g));
        db
    };
    let d = build(9001, 2001);
    let mut s = build(9002, 2002);
    let mid = Uuid::from_u128(2 + depth / 2);
    if let Some(g) = group_mut(&mut s.root, mid) {
        g.name = "renamed".into();
        g.times.set_last_modification(mk_time(2003));
    }
    Case { dest: d, src: s, ops: vec!["d:add-group".into(), "s:add-group".into(), "s:rename-group".into()] }
}

pub fn run(args: &Args) {
    let prop = args.prop.clone();
    let n = args.n(4_000, 150_000);
    let mut agg = Aggregate::new();
    let now = chrono::Utc::now().timestamp();
    let nw = witnesses().len() as u64;
    for (stream, max_ops, subtree, count) in [("witness", 0u64, false, nw), ("deep-chain", 0u64, false, args.n(6, 60)), ("pairs", 8u64, false, n / 2), ("pairs-subtree-delete", 10u64, true, n / 2)] {
        run_cases(&mut agg, args, stream, count, |i, rng, model| {
            let c = if stream == "witness" { witnesses().swap_remove(i as usize) } else if stream == "deep-chain" { deep_chain(rng) } else { gen_case(rng, max_ops, subtree) };
            let mut int = Interner::new();
            let input = format!("(merge {} {} {})", now, db_term(&mut int, &c.dest), db_term(&mut int, &c.src));
            let r = run_merge(&c.dest, &c.src);
            let impl_s = run_term(&mut int, &r);
            let model_s = model.eval(&input);
            let mut o = CaseOutcome::default();
            let nev = match &r {
                MergeRun::Ok(_, e, _) => e.len(),
                _ => 0,
            };
            o.nontrivial = nev >= 1;
            o.tags.push(format!("result:{}", impl_s.split(' ').next().unwrap_or("")));
            o.tags.push(format!("events:{}", match nev { 0 => "0", 1..=2 => "1-2", 3..=6 => "3-6", _ => ">6" }));
            for op in &c.ops {
                o.tags.push(format!("op:{}", &op[2..]));
            }
            if impl_s != model_s {
                o.disagreement = Some((impl_s.clone(), model_s));
            }
            if let Some((w, cls)) = evaluate(&prop, &c, &r) {
                o.violation = Some(w);
                o.violation_class = cls;
            }
            o.input = format!("{} ;ops {}", input, c.ops.join(","));
            o
        });
    }
    write_report(
        args,
        &agg,
        "stream deep-chain: a chain of 26..60 nested groups, a group added at the bottom in both replicas, a rename half-way down (each merge under a 5 s watchdog); streams pairs: random well-formed ancestors (depth <= 3, unique UUIDs, every node with modification and location times, entries with committed histories) x two independent edit histories of total length 0..10 over {edit entry + commit, add entry, add group, move entry, move group, delete entry + tombstone, delete empty group + tombstone, delete subtree with tombstones parent-first or child-first, rename group, use a node (usage counter and access time change, modification time does not)} under one logical clock with pairwise distinct seconds; non-trivial = the merge reports at least one event; distinct = distinct (destination, source) text",
        serde_json::json!({}),
    );
}

//! The repository's sample files with their credentials.
use keepass::DatabaseKey;

pub struct Fixture {
    pub file: &'static str,
    pub password: Option<&'static str>,
    pub keyfile: Option<&'static str>,
}

pub const DIR: &str = "/repo/tests/resources/";

pub const FIXTURES: &[Fixture] = &[
    Fixture { file: "test_db_with_password.kdbx", password: Some("demopass"), keyfile: None },
    Fixture { file: "test_db_with_keyfile.kdbx", password: None, keyfile: Some("test_key.key") },
    Fixture { file: "test_db_with_keyfile_xml.kdbx", password: None, keyfile: Some("test_key_xml.key") },
    Fixture { file: "test_db_kdb_with_password.kdb", password: Some("foobar"), keyfile: None },
    Fixture { file: "test_db_kdbx4_with_password_aes.kdbx", password: Some("demopass"), keyfile: None },
    Fixture { file: "test_db_kdbx4_with_password_argon2.kdbx", password: Some("demopass"), keyfile: None },
    Fixture { file: "test_db_kdbx4_with_password_argon2id.kdbx", password: Some("demopass"), keyfile: None },
    Fixture { file: "test_db_kdbx4_with_password_argon2_twofish.kdbx", password: Some("demopass"), keyfile: None },
    Fixture { file: "test_db_kdbx4_with_password_argon2_chacha20.kdbx", password: Some("demopass"), keyfile: None },
    Fixture { file: "test_db_kdbx4_with_password_argon2id_twofish.kdbx", password: Some("demopass"), keyfile: None },
    Fixture { file: "test_db_kdbx4_with_password_argon2id_chacha20.kdbx", password: Some("demopass"), keyfile: None },
    Fixture { file: "test_db_kdbx4_with_keyfile.kdbx", password: None, keyfile: Some("test_key.key") },
    Fixture { file: "test_db_kdbx4_with_keyfile_v2.kdbx", password: Some("demopass"), keyfile: Some("test_db_kdbx4_with_keyfile_v2.keyx") },
    Fixture { file: "test_db_kdbx4_with_password_deleted_entry.kdbx", password: Some("demopass"), keyfile: None },
    Fixture { file: "test_db_kdbx4_with_totp_entry.kdbx", password: Some("test"), keyfile: None },
    Fixture { file: "test_db_kdbx4_with_totp_sha512_entry.kdbx", password: Some("test"), keyfile: None },
    Fixture { file: "broken_random_data.kdbx", password: Some(""), keyfile: None },
    Fixture { file: "broken_kdbx_version.kdbx", password: Some(""), keyfile: None },
];

impl Fixture {
    pub fn bytes(&self) -> Vec<u8> {
        std::fs::read(format!("{}{}", DIR, self.file)).expect("fixture file")
    }
    pub fn keyfile_bytes(&self) -> Option<Vec<u8>> {
        self.keyfile.map(|k| std::fs::read(format!("{}{}", DIR, k)).expect("key file"))
    }
    pub fn key(&self) -> DatabaseKey {
        make_key(self.password, self.keyfile_bytes().as_deref())
    }
}

pub fn make_key(password: Option<&str>, keyfile: Option<&[u8]>) -> DatabaseKey {
    let mut k = DatabaseKey::new();
    if let Some(p) = password {
        k = k.with_password(p);
    }
    if let Some(kf) = keyfile {
        let mut r: &[u8] = kf;
        k = k.with_keyfile(&mut r).unwrap();
    }
    k
}

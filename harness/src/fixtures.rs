//! The repository's sample files with their credentials.
use keepass::DatabaseKey;

pub struct Fixture {
    pub file: &'static str,
    pub password: Option<&'static str>,
    pub keyfile: Option<&'static str>,
}

pub const DIR: &str = "/repo/tests/resources/";

pub const FIXTURES: &[Fixture] = &[
    Fixture { file: "test_db_with_password.kdbx", password: Some("demopass"), keyfile: None },
    Fixture { file: "test_db_with_keyfile.kdbx", password: None, keyfile: Some("test_key.key") },
    Fixture { file: "test_db_with_keyfile_xml.kdbx", password: None, keyfile: Some("test_key_xml.key") },
    Fixture { file: "test_db_kdb_with_password.kdb", password: Some("foobar"), keyfile: None },
    Fixture { file: "test_db_kdbx4_with_password_aes.kdbx", password: Some("demopass"), keyfile: None },
    Fixture { file: "test_db_kdbx4_with_password_argon2.kdbx", password: Some("demopass"), keyfile: None },
    Fixture { file: "test_db_kdbx4_with_password_argon2id.kdbx", password: Some("demopass"), keyfile: None },
    Fixture { file: "test_db_kdbx4_with_password_argon2_twofish.kdbx", password: Some("demopass"), keyfile: None },
    Fixture { file: "test_db_kdbx4_with_password_argon2_chacha20.kdbx", password: Some("demopass"), keyfile: None },
    Fixture { file: "test_db_kdbx4_with_password_argon2id_twofish.kdbx", password: Some("demopass"), keyfile: None },
    Fixture { file: "test_db_kdbx4_with_password_argon2id_chacha20.kdbx", password: Some("demopass"), keyfile: None },
    Fixture { file: "test_db_kdbx4_with_keyfile.kdbx", password: None, keyfile: Some("test_key.key") },
    Fixture { file: "test_db_kdbx4_with_keyfile_v2.kdbx", password: Some("demopass"), keyfile: Some("test_db_kdbx4_with_keyfile_v2.keyx") },
    Fixture { file: "test_db_kdbx4_with_password_deleted_entry.kdbx", password: Some("demopass"), keyfile: None },
    Fixture { file: "test_db_kdbx4_with_totp_entry.kdbx", password: Some("test"), keyfile: None },
    Fixture { file: "test_db_kdbx4_with_totp_sha512_entry.kdbx", password: Some("test"), keyfile: None },
    Fixture { file: "broken_random_data.kdbx", password: Some(""), keyfile: None },
    Fixture { file: "broken_kdbx_version.kdbx", password: Some(""), keyfile: None },
];

impl Fixture {
    pub fn bytes(&self) -> Vec<u8> {
        std::fs::read(format!("{}{}", DIR, self.file)).expect("fixture file")
    }
    pub fn keyfile_bytes(&self) -> Option<Vec<u8>> {
        self.keyfile.map(|k| std::fs::read(format!("{}{}", DIR, k)).expect("key file"))
    }
    pub fn key(&self) -> DatabaseKey {
        make_key(self.password, self.keyfile_bytes().as_deref())
    }
}

/// a reader that hands the data out in pieces of varying size (a pipe, a socket, a decompressor)
pub struct PieceReader<'a> { pub data: &'a [u8], pub pos: usize, pub step: usize }
impl<'a> std::io::Read for PieceReader<'a> {
    fn read(&mut self, buf: &mut [u8]) -> std::io::Result<usize> {
        let n = buf.len().min(self.step).min(self.data.len() - self.pos);
        buf[..n].copy_from_slice(&self.data[self.pos..self.pos + n]);
        self.pos += n;
        self.step = self.step % 61 + 1;
        Ok(n)
    }
}

/// the key for these credentials.  The order of the builder calls and the way the key file is delivered
/// (one slice, or pieces of varying size) are chosen from the content, so every stream exercises all of them
pub fn make_key(password: Option<&str>, keyfile: Option<&[u8]>) -> DatabaseKey {
    let mut k = DatabaseKey::new();
    let variant = keyfile.map(|f| f.iter().fold(f.len(), |a, b| a.wrapping_mul(31).wrapping_add(*b as usize))).unwrap_or(0);
    let keyfile_first = variant % 2 == 1;
    let add_keyfile = |k: DatabaseKey| -> DatabaseKey {
        match keyfile {
            Some(kf) if (variant / 2) % 2 == 1 => { let mut r = PieceReader { data: kf, pos: 0, step: 1 + variant % 7 }; k.with_keyfile(&mut r).unwrap() }
            Some(kf) => { let mut r: &[u8] = kf; k.with_keyfile(&mut r).unwrap() }
            None => k,
        }
    };
    if keyfile_first { k = add_keyfile(k); }
    if let Some(p) = password {
        k = k.with_password(p);
    }
    if !keyfile_first { k = add_keyfile(k); }
    k
}

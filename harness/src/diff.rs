//! Locate the first difference between two databases (for replay files).
use crate::canon::*;
use keepass::db::{Group, Node};
use keepass::Database;

fn group_diff(path: &str, a: &Group, b: &Group) -> Option<String> {
    if group_data_s(a) != group_data_s(b) { return Some(format!("{}: group fields {} vs {}", path, group_data_s(a), group_data_s(b))); }
    if a.uuid != b.uuid { return Some(format!("{}: uuid", path)); }
    if times_full_s(&a.times) != times_full_s(&b.times) { return Some(format!("{}: times {} vs {}", path, times_full_s(&a.times), times_full_s(&b.times))); }
    if a.children.len() != b.children.len() { return Some(format!("{}: {} vs {} children", path, a.children.len(), b.children.len())); }
    for (i, (x, y)) in a.children.iter().zip(b.children.iter()).enumerate() {
        match (x, y) {
            (Node::Group(g1), Node::Group(g2)) => { if let Some(d) = group_diff(&format!("{}/{}", path, i), g1, g2) { return Some(d); } }
            (Node::Entry(e1), Node::Entry(e2)) => {
                if e1 != e2 {
                    if entry_data_s(e1) != entry_data_s(e2) { return Some(format!("{}/{}: entry fields {} vs {}", path, i, entry_data_s(e1), entry_data_s(e2))); }
                    if times_full_s(&e1.times) != times_full_s(&e2.times) { return Some(format!("{}/{}: entry times {} vs {}", path, i, times_full_s(&e1.times), times_full_s(&e2.times))); }
                    return Some(format!("{}/{}: entry uuid or history", path, i));
                }
            }
            _ => return Some(format!("{}/{}: node kind", path, i)),
        }
    }
    None
}

pub fn first_difference(a: &Database, b: &Database) -> String {
    if a.config != b.config { return format!("config {:?} vs {:?}", a.config, b.config); }
    if a.header_attachments != b.header_attachments { return "header attachments".into(); }
    if a.deleted_objects != b.deleted_objects { return "deleted objects".into(); }
    if a.meta != b.meta { return format!("meta {:?} vs {:?}", a.meta, b.meta).chars().take(600).collect(); }
    group_diff("root", &a.root, &b.root).unwrap_or_else(|| "unknown".into()).chars().take(600).collect()
}

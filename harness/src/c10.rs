//! C10: reading is independent of how the source delivers bytes and surfaces I/O errors.
//! Scripted `Read` implementations drive the real entry points; the model predicts, for the same
//! schedule, either the complete buffer or the I/O error kind (and the sniffed version).

use crate::common::*;
use crate::fixtures::*;
use crate::io_script::*;
use keepass::config::{CompressionConfig, DatabaseConfig, InnerCipherConfig, KdfConfig, OuterCipherConfig};
use keepass::db::{Entry, Group, Node, Value};
use keepass::error::{DatabaseIntegrityError, DatabaseOpenError};
use keepass::{Database, DatabaseKey};

fn small_db_bytes(rng: &mut Rng) -> (Vec<u8>, DatabaseKey) {
    let mut cfg = DatabaseConfig::default();
    cfg.kdf_config = KdfConfig::Aes { rounds: 1 };
    cfg.outer_cipher_config = match rng.below(3) { 0 => OuterCipherConfig::AES256, 1 => OuterCipherConfig::Twofish, _ => OuterCipherConfig::ChaCha20 };
    cfg.compression_config = if rng.chance(1, 2) { CompressionConfig::GZip } else { CompressionConfig::None };
    cfg.inner_cipher_config = match rng.below(3) { 0 => InnerCipherConfig::Plain, 1 => InnerCipherConfig::Salsa20, _ => InnerCipherConfig::ChaCha20 };
    let mut db = Database::new(cfg);
    let mut g = Group::new("G");
    for i in 0..rng.below(4) {
        let mut e = Entry::new();
        e.fields.insert("Title".into(), Value::Unprotected(format!("entry {}", i)));
        e.fields.insert("Password".into(), Value::Protected(format!("pw{}", rng.next()).as_bytes().into()));
        g.children.push(Node::Entry(e));
    }
    db.root.children.push(Node::Group(g));
    let mut out = Vec::new();
    db.save(&mut out, DatabaseKey::new().with_password("pw")).expect("save");
    (out, DatabaseKey::new().with_password("pw"))
}

fn open_class(r: &Result<Database, DatabaseOpenError>) -> String {
    match r {
        Ok(_) => "ok".into(),
        Err(DatabaseOpenError::Io(e)) => format!("io {}", kind_name(e.kind())),
        Err(e) => format!("err {:?}", e),
    }
}

fn version_class(r: &Result<keepass::config::DatabaseVersion, DatabaseIntegrityError>) -> String {
    use keepass::config::DatabaseVersion::*;
    match r {
        Ok(KDB(m)) => format!("version KDB {}", m),
        Ok(KDB2(m)) => format!("version KDB2 {}", m),
        Ok(KDB3(m)) => format!("version KDB3 {}", m),
        Ok(KDB4(m)) => format!("version KDB4 {}", m),
        Err(DatabaseIntegrityError::InvalidKDBXIdentifier) => "integrity InvalidKDBXIdentifier".into(),
        Err(DatabaseIntegrityError::InvalidKDBXVersion { .. }) => "integrity InvalidKDBXVersion".into(),
        Err(DatabaseIntegrityError::Io(e)) => format!("io {}", kind_name(e.kind())),
        Err(e) => format!("err {:?}", e),
    }
}

fn header_variants(rng: &mut Rng) -> Vec<u8> {
    // files around the 12-byte header: valid/invalid signature, every version word, short files
    let mut v = vec![0x03, 0xd9, 0xa2, 0x9a];
    if rng.chance(1, 8) {
        v[rng.below(4) as usize] ^= 1 << rng.below(8);
    }
    let id: u32 = *rng.pick(&[0xb54bfb65u32, 0xb54bfb66, 0xb54bfb67, 0xb54bfb67, 0xb54bfb68, 0]);
    v.extend_from_slice(&id.to_le_bytes());
    v.extend_from_slice(&(rng.below(3) as u16).to_le_bytes());
    v.extend_from_slice(&(*rng.pick(&[3u16, 4, 4, 2, 5, 0])).to_le_bytes());
    let extra = rng.below(30) as usize;
    v.extend_from_slice(&rng.bytes(extra));
    let keep = if rng.chance(1, 3) { rng.below(v.len() as u64 + 1) as usize } else { v.len() };
    v.truncate(keep);
    v
}

pub fn run(args: &Args) {
    let mut agg = Aggregate::new();
    let fixture_bytes: Vec<(Vec<u8>, usize)> = FIXTURES.iter().enumerate().map(|(i, f)| (f.bytes(), i)).collect();
    // what opening each fixture as a whole gives (reference), computed once
    let fixture_ref: Vec<Result<Database, String>> = FIXTURES
        .iter()
        .map(|f| Database::parse(&f.bytes(), f.key()).map_err(|e| format!("err {:?}", e)))
        .collect();
    let cheap: Vec<usize> = vec![0, 1, 2, 3, 16, 17]; // fixtures that open (or fail) in a few ms

    // ---- stream 1: version sniffing ----
    run_cases(&mut agg, args, "version", args.n(6_000, 400_000), |_i, rng, model| {
        let (file, fx) = if rng.chance(1, 2) {
            let (b, i) = rng.pick(&fixture_bytes).clone();
            (b, Some(i))
        } else {
            (header_variants(rng), None)
        };
        let sched = Schedule { script: gen_script(rng, file.len().min(40)), fail: gen_fail(rng, file.len().min(30), 3) };
        let input = format!("(c10-gv {} {} {})", hexatom(&file[..file.len().min(64)]), sched.term_script(), sched.term_fail());
        // the model only needs the first bytes, but is given the same prefix the reader may touch
        let mut rd = ScriptedReader::new(&file, &sched);
        let r = Database::get_version(&mut rd);
        let impl_s = version_class(&r);
        // the source handed to the model is the file cut to 64 bytes: get_version must not read past 12
        let model_s = if let Some((k, _)) = sched.fail { if k > 64 { model.eval(&format!("(c10-gv {} {} none)", hexatom(&file[..file.len().min(64)]), sched.term_script())) } else { model.eval(&input) } } else { model.eval(&input) };
        let mut o = CaseOutcome::default();
        o.nontrivial = sched.script.len() >= 2 && file.len() >= 12;
        o.tags.push(format!("gv:{}", impl_s.split(' ').next().unwrap_or("")));
        o.tags.push(format!("fail:{}", sched.fail.is_some()));
        if impl_s != model_s {
            o.disagreement = Some((impl_s.clone(), model_s));
        }
        // the property on the implementation: same as with the whole file at once (no failure), and
        // the version that open reports
        if sched.fail.map(|(k, _)| k >= 12.min(file.len() + 1)).unwrap_or(true) {
            let whole = version_class(&Database::get_version(&mut &file[..]));
            if whole != impl_s {
                o.violation = Some(format!("get_version depends on the delivery schedule: {} vs {} at once", impl_s, whole));
            }
            if let (Some(i), Ok(v)) = (fx, &r) {
                if let Ok(db) = &fixture_ref[i] {
                    if &db.config.version != v {
                        o.violation = Some(format!("sniffed version {:?} differs from the version open reports {:?}", v, db.config.version));
                        if file.len() >= 8 && file[4..8] == [0x65, 0xfb, 0x4b, 0xb5] {
                            // KNOWN_FINDINGS F16: KDB files, minor version taken from different header words
                            o.violation_class = Some("kdb-sniffed-minor".into());
                        }
                    }
                }
            }
        } else if !impl_s.starts_with("io ") {
            o.violation = Some(format!("source failed before the header was complete but get_version returned {}", impl_s));
        }
        o.input = input;
        o
    });

    // ---- stream 2: open / get_xml over cheap files ----
    run_cases(&mut agg, args, "open", args.n(1_500, 60_000), |_i, rng, model| {
        let (file, key, reference): (Vec<u8>, DatabaseKey, Result<Database, String>) = if rng.chance(1, 2) {
            let i = *rng.pick(&cheap);
            (FIXTURES[i].bytes(), FIXTURES[i].key(), fixture_ref[i].clone())
        } else {
            let (b, k) = small_db_bytes(rng);
            let r = Database::parse(&b, k.clone()).map_err(|e| format!("err {:?}", e));
            (b, k, r)
        };
        let sched = Schedule { script: gen_script(rng, file.len()), fail: gen_fail(rng, file.len(), 2) };
        let input = format!("(c10-rte {} {} {} ())", hexatom(&file), sched.term_script(), sched.term_fail());
        let model_s = model.eval(&input);
        let use_xml = rng.chance(1, 4);
        let mut rd = ScriptedReader::new(&file, &sched);
        let mut o = CaseOutcome::default();
        let (impl_s, expect_s) = if use_xml {
            let r = Database::get_xml(&mut rd, key.clone());
            let got = match &r {
                Ok(x) => format!("ok {}", x.len()),
                Err(DatabaseOpenError::Io(e)) => format!("io {}", kind_name(e.kind())),
                Err(e) => format!("err {:?}", e),
            };
            let exp = if let Some(k) = model_s.strip_prefix("err ") {
                format!("io {}", k)
            } else {
                match Database::get_xml(&mut &file[..], key.clone()) {
                    Ok(x) => format!("ok {}", x.len()),
                    Err(e) => format!("err {:?}", e),
                }
            };
            (got, exp)
        } else {
            let r = Database::open(&mut rd, key.clone());
            let mut got = open_class(&r);
            if let (Ok(a), Ok(b)) = (&r, &reference) {
                if a != b {
                    got = "ok-but-different".into();
                }
            }
            let exp = if let Some(k) = model_s.strip_prefix("err ") {
                format!("io {}", k)
            } else if model_s == format!("ok {}", hexatom(&file)) {
                match &reference { Ok(_) => "ok".to_string(), Err(e) => e.clone() }
            } else {
                format!("model-delivered-other-bytes {}", &model_s[..model_s.len().min(40)])
            };
            (got, exp)
        };
        o.nontrivial = sched.script.len() >= 2 && rd.calls >= 3;
        o.tags.push(format!("open:{}", impl_s.split(' ').next().unwrap_or("")));
        o.tags.push(format!("fail:{}", sched.fail.is_some()));
        o.tags.push(format!("reads:{}", match rd.calls { 0..=2 => "1-2", 3..=20 => "3-20", 21..=200 => "21-200", _ => ">200" }));
        if impl_s != expect_s {
            o.disagreement = Some((impl_s.clone(), expect_s.clone()));
            o.violation = Some(format!("open/get_xml over a scripted source gave {} where the whole-file result / I/O error {} is required", impl_s, expect_s));
        }
        o.input = format!("(c10-open file-len {} {} {} xml={})", file.len(), sched.term_script(), sched.term_fail(), use_xml);
        o
    });

    // ---- stream 3: key files ----
    run_cases(&mut agg, args, "keyfile", args.n(1_500, 60_000), |_i, rng, model| {
        let file = match rng.below(4) {
            0 => std::fs::read(format!("{}test_key.key", DIR)).unwrap(),
            1 => std::fs::read(format!("{}test_key_xml.key", DIR)).unwrap(),
            2 => std::fs::read(format!("{}test_db_kdbx4_with_keyfile_v2.keyx", DIR)).unwrap(),
            _ => { let n = rng.below(200) as usize; rng.bytes(n) }
        };
        let sched = Schedule { script: gen_script(rng, file.len()), fail: gen_fail(rng, file.len(), 2) };
        let input = format!("(c10-rte {} {} {} ())", hexatom(&file), sched.term_script(), sched.term_fail());
        let model_s = model.eval(&input);
        let mut rd = ScriptedReader::new(&file, &sched);
        let r = DatabaseKey::new().with_keyfile(&mut rd);
        let whole = DatabaseKey::new().with_keyfile(&mut &file[..]).unwrap();
        let impl_s = match &r {
            Ok(k) => if *k == whole { "ok".to_string() } else { "ok-but-different".to_string() },
            Err(e) => format!("io {}", kind_name(e.kind())),
        };
        let expect_s = if let Some(k) = model_s.strip_prefix("err ") { format!("io {}", k) } else { "ok".to_string() };
        let mut o = CaseOutcome::default();
        o.nontrivial = sched.script.len() >= 2;
        o.tags.push(format!("keyfile:{}", impl_s.split(' ').next().unwrap_or("")));
        if impl_s != expect_s {
            o.disagreement = Some((impl_s.clone(), expect_s.clone()));
            o.violation = Some(format!("with_keyfile over a scripted source gave {} instead of {}", impl_s, expect_s));
        }
        o.input = input;
        o
    });

    write_report(
        args,
        &agg,
        "streams: version (fixture files and generated 0..40-byte headers with every signature/version word, x schedules), open (cheap fixture files of all three formats and generated KDBX4 files with 1 AES-KDF round, open and get_xml), keyfile (the three key-file fixtures and random bytes); schedules: fixed caps 1..64, powers of two, random caps, whole file at once, interruptions sprinkled; failures of kind Other/UnexpectedEof/BrokenPipe at offsets 0, 11, 12, len-1, len, beyond, random; non-trivial = at least two scheduled actions (and >= 12 bytes / >= 3 read calls); distinct = distinct (file, schedule) text",
        serde_json::json!({}),
    );
}

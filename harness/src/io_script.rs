//! Scripted byte sources and sinks with exactly the semantics of coq/theories/io/ReadScript.v and
//! WriteScript.v, plus generators for schedules.

use crate::common::*;
use std::collections::VecDeque;
use std::io::{Error, ErrorKind, Read, Write};

#[derive(Clone, Debug)]
pub enum Act {
    Chunk(usize),
    Intr,
}

pub fn kind_name(k: ErrorKind) -> &'static str {
    match k {
        ErrorKind::Other => "Other",
        ErrorKind::UnexpectedEof => "UnexpectedEof",
        ErrorKind::Interrupted => "Interrupted",
        ErrorKind::WriteZero => "WriteZero",
        ErrorKind::BrokenPipe => "BrokenPipe",
        _ => "Unmodelled",
    }
}

#[derive(Clone)]
pub struct Schedule {
    pub script: Vec<Act>,
    pub fail: Option<(usize, ErrorKind)>,
}

impl Schedule {
    pub fn term_script(&self) -> String {
        slist(self.script.iter().map(|a| match a {
            Act::Chunk(n) => n.to_string(),
            Act::Intr => "i".to_string(),
        }))
    }
    pub fn term_fail(&self) -> String {
        match &self.fail {
            None => "none".into(),
            Some((k, e)) => format!("(some ({} {}))", k, kind_name(*e)),
        }
    }
}

pub struct ScriptedReader {
    data: Vec<u8>,
    pos: usize,
    script: VecDeque<Act>,
    fail: Option<(usize, ErrorKind)>,
    pub calls: usize,
}

impl ScriptedReader {
    pub fn new(data: &[u8], s: &Schedule) -> ScriptedReader {
        ScriptedReader { data: data.to_vec(), pos: 0, script: s.script.iter().cloned().collect(), fail: s.fail, calls: 0 }
    }
}

impl Read for ScriptedReader {
    fn read(&mut self, buf: &mut [u8]) -> std::io::Result<usize> {
        self.calls += 1;
        let cap = buf.len();
        let mut limit = cap;
        if let Some((k, kind)) = self.fail {
            if self.pos == k {
                return Err(Error::new(kind, "scripted failure"));
            }
            limit = limit.min(k.saturating_sub(self.pos));
        }
        let m = match self.script.pop_front() {
            Some(Act::Intr) => return Err(Error::new(ErrorKind::Interrupted, "scripted interruption")),
            Some(Act::Chunk(n)) => n.max(1).min(limit),
            None => limit,
        };
        let m = m.min(self.data.len() - self.pos);
        buf[..m].copy_from_slice(&self.data[self.pos..self.pos + m]);
        self.pos += m;
        Ok(m)
    }
}

pub struct ScriptedWriter {
    pub recv: Vec<u8>,
    script: VecDeque<Act>,
    fail: Option<(usize, ErrorKind)>,
    pub calls: usize,
    pub flushed: usize,
}

impl ScriptedWriter {
    pub fn new(s: &Schedule) -> ScriptedWriter {
        ScriptedWriter { recv: Vec::new(), script: s.script.iter().cloned().collect(), fail: s.fail, calls: 0, flushed: 0 }
    }
}

impl Write for ScriptedWriter {
    fn write(&mut self, buf: &[u8]) -> std::io::Result<usize> {
        self.calls += 1;
        let mut limit = buf.len();
        if let Some((off, kind)) = self.fail {
            if self.recv.len() == off {
                // a full sink (a slice, a bounded buffer) does not return an error: it accepts zero bytes,
                // which write_all reports as ErrorKind::WriteZero
                if kind == ErrorKind::WriteZero && !buf.is_empty() {
                    return Ok(0);
                }
                return Err(Error::new(kind, "scripted failure"));
            }
            limit = limit.min(off.saturating_sub(self.recv.len()));
        }
        let m = match self.script.pop_front() {
            Some(Act::Intr) => return Err(Error::new(ErrorKind::Interrupted, "scripted interruption")),
            Some(Act::Chunk(n)) => n.max(1).min(limit),
            None => limit,
        };
        self.recv.extend_from_slice(&buf[..m]);
        Ok(m)
    }
    fn flush(&mut self) -> std::io::Result<()> {
        self.flushed += 1;
        Ok(())
    }
}

/// A schedule of short transfers: fixed caps 1..64, powers of two, random caps, interruptions sprinkled.
pub fn gen_script(rng: &mut Rng, len: usize) -> Vec<Act> {
    let mut v = Vec::new();
    let style = rng.below(6);
    let fixed = match style {
        0 => 1,
        1 => rng.range(1, 64) as usize,
        2 => 1usize << rng.below(12),
        _ => 0,
    };
    // enough actions to cover the file for small caps; the tail (script exhausted) delivers all that fits
    let n_actions = if fixed > 0 { (len / fixed + 2).min(6000) } else { rng.below(40) as usize };
    let intr_rate = if rng.chance(1, 2) { 0 } else { rng.range(2, 10) };
    for _ in 0..n_actions {
        if intr_rate > 0 && rng.chance(1, intr_rate) {
            v.push(Act::Intr);
        }
        let c = if fixed > 0 { fixed } else if rng.chance(1, 5) { rng.range(1, 4096) as usize } else { rng.range(1, 40) as usize };
        v.push(Act::Chunk(c));
    }
    if style == 5 {
        v.clear(); // whole file in one go
    }
    v
}

pub fn gen_fail(rng: &mut Rng, len: usize, within_den: u64) -> Option<(usize, ErrorKind)> {
    if rng.chance(1, within_den) {
        let kinds = [ErrorKind::Other, ErrorKind::UnexpectedEof, ErrorKind::BrokenPipe];
        // boundaries are interesting: 0, 11, 12, 13, len-1, len, len+1
        let k = match rng.below(8) {
            0 => 0,
            1 => 11,
            2 => 12,
            3 => len.saturating_sub(1),
            4 => len,
            5 => len + 1 + rng.below(10) as usize,
            _ => rng.below(len as u64 + 1) as usize,
        };
        Some((k, *rng.pick(&kinds)))
    } else {
        None
    }
}

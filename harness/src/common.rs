//! Shared harness machinery: PRNG, S-expression printing, the model child process with its oracle
//! protocol, the parallel case runner and the JSON report.

use std::collections::{BTreeMap, HashSet};
use std::io::{BufRead, BufReader, Write};
use std::process::{Child, ChildStdin, ChildStdout, Command, Stdio};
use std::sync::Mutex;

// ---------------------------------------------------------------------------------------------
// PRNG: SplitMix64.  Every random choice of a case derives from (seed, property, index).
// ---------------------------------------------------------------------------------------------
#[derive(Clone)]
pub struct Rng(pub u64);

impl Rng {
    pub fn for_case(seed: u64, prop: &str, index: u64) -> Rng {
        let mut h: u64 = 0xcbf29ce484222325;
        for b in prop.bytes() {
            h ^= b as u64;
            h = h.wrapping_mul(0x100000001b3);
        }
        let mut r = Rng(seed ^ h ^ index.wrapping_mul(0x9E3779B97F4A7C15));
        r.next();
        r
    }
    pub fn next(&mut self) -> u64 {
        self.0 = self.0.wrapping_add(0x9E3779B97F4A7C15);
        let mut z = self.0;
        z = (z ^ (z >> 30)).wrapping_mul(0xBF58476D1CE4E5B9);
        z = (z ^ (z >> 27)).wrapping_mul(0x94D049BB133111EB);
        z ^ (z >> 31)
    }
    /// uniform in [0, n)
    pub fn below(&mut self, n: u64) -> u64 {
        if n == 0 {
            0
        } else {
            self.next() % n
        }
    }
    pub fn range(&mut self, lo: u64, hi_incl: u64) -> u64 {
        lo + self.below(hi_incl - lo + 1)
    }
    pub fn chance(&mut self, num: u64, den: u64) -> bool {
        self.below(den) < num
    }
    pub fn pick<'a, T>(&mut self, xs: &'a [T]) -> &'a T {
        &xs[self.below(xs.len() as u64) as usize]
    }
    pub fn bytes(&mut self, n: usize) -> Vec<u8> {
        (0..n).map(|_| self.next() as u8).collect()
    }
}

// ---------------------------------------------------------------------------------------------
// S-expression printing helpers (wire format of ocaml/driver.ml)
// ---------------------------------------------------------------------------------------------
pub fn hexatom(b: &[u8]) -> String {
    let mut s = String::with_capacity(1 + 2 * b.len());
    s.push('x');
    for x in b {
        s.push_str(&format!("{:02x}", x));
    }
    s
}
pub fn unhexatom(s: &str) -> Option<Vec<u8>> {
    let s = s.strip_prefix('x')?;
    hex::decode(s).ok()
}
pub fn slist<I: IntoIterator<Item = String>>(items: I) -> String {
    let v: Vec<String> = items.into_iter().collect();
    format!("({})", v.join(" "))
}
pub fn sopt(o: Option<String>) -> String {
    match o {
        None => "none".to_string(),
        Some(s) => format!("(some {})", s),
    }
}

// ---------------------------------------------------------------------------------------------
// Model child process
// ---------------------------------------------------------------------------------------------
pub type Oracle<'a> = &'a dyn Fn(&str, &[Vec<u8>]) -> Option<Vec<u8>>;

pub struct ModelProc {
    child: Child,
    stdin: ChildStdin,
    stdout: BufReader<ChildStdout>,
    pub oracle_calls: u64,
}

pub fn model_path() -> String {
    std::env::var("KPMODEL").unwrap_or_else(|_| "/verif/ocaml/kpmodel".to_string())
}

impl ModelProc {
    pub fn spawn() -> ModelProc {
        // the extracted code recurses over byte lists (not tail-recursively): lift the stack limit
        let mut child = Command::new("sh")
            .arg("-c")
            .arg("ulimit -s unlimited 2>/dev/null || ulimit -s 1000000 2>/dev/null; exec \"$0\"")
            .arg(model_path())
            .stdin(Stdio::piped())
            .stdout(Stdio::piped())
            .spawn()
            .expect("cannot start the extracted model (ocaml/kpmodel); run setup");
        let stdin = child.stdin.take().unwrap();
        let stdout = BufReader::new(child.stdout.take().unwrap());
        ModelProc { child, stdin, stdout, oracle_calls: 0 }
    }

    pub fn eval(&mut self, request: &str) -> String {
        self.eval_with(request, &|_, _| None)
    }

    /// Send one request line; serve oracle calls until the "= " reply arrives.
    pub fn eval_with(&mut self, request: &str, oracle: Oracle) -> String {
        debug_assert!(!request.contains('\n'));
        if writeln!(self.stdin, "{}", request).is_err() || self.stdin.flush().is_err() {
            return "driver-error write-failed".to_string();
        }
        loop {
            let mut line = String::new();
            match self.stdout.read_line(&mut line) {
                Ok(0) | Err(_) => {
                    // the driver died (e.g. native stack overflow): restart it for the next case
                    let _ = self.child.kill();
                    let _ = self.child.wait();
                    *self = ModelProc::spawn();
                    return "driver-error died".to_string();
                }
                Ok(_) => {}
            }
            let line = line.trim_end();
            if let Some(r) = line.strip_prefix("= ") {
                return r.to_string();
            } else if line == "=" {
                return String::new();
            } else if let Some(q) = line.strip_prefix("? ") {
                self.oracle_calls += 1;
                let mut it = q.split(' ');
                let name = it.next().unwrap_or("");
                let args: Vec<Vec<u8>> = it.filter_map(unhexatom).collect();
                let ans = match oracle(name, &args) {
                    Some(b) => hexatom(&b),
                    None => "!".to_string(),
                };
                let _ = writeln!(self.stdin, "{}", ans);
                let _ = self.stdin.flush();
            }
        }
    }
}

impl Drop for ModelProc {
    fn drop(&mut self) {
        let _ = self.child.kill();
        let _ = self.child.wait();
    }
}

// ---------------------------------------------------------------------------------------------
// Case outcomes, aggregation and report
// ---------------------------------------------------------------------------------------------
#[derive(Default, Clone)]
pub struct CaseOutcome {
    /// canonical text of the input (for distinct counting and replay files)
    pub input: String,
    /// non-trivial by the property's stated rule
    pub nontrivial: bool,
    /// model and implementation disagreed: (impl, model)
    pub disagreement: Option<(String, String)>,
    /// the property itself failed on the implementation: description
    pub violation: Option<String>,
    /// class of the violation, matched against KNOWN_FINDINGS (None = unclassified)
    pub violation_class: Option<String>,
    /// counters for the input-distribution histograms
    pub tags: Vec<String>,
}

pub struct Aggregate {
    pub evaluations: u64,
    pub distinct: HashSet<u64>,
    pub nontrivial_distinct: HashSet<u64>,
    pub tags: BTreeMap<String, u64>,
    pub samples: Vec<String>,
    pub disagreements: Vec<serde_json::Value>,
    pub violations: Vec<serde_json::Value>,
    pub kinds: BTreeMap<String, u64>,
}

fn fnv(s: &str) -> u64 {
    let mut h: u64 = 0xcbf29ce484222325;
    for b in s.bytes() {
        h ^= b as u64;
        h = h.wrapping_mul(0x100000001b3);
    }
    h
}

impl Aggregate {
    pub fn new() -> Aggregate {
        Aggregate {
            evaluations: 0,
            distinct: HashSet::new(),
            nontrivial_distinct: HashSet::new(),
            tags: BTreeMap::new(),
            samples: Vec::new(),
            disagreements: Vec::new(),
            violations: Vec::new(),
            kinds: BTreeMap::new(),
        }
    }
    pub fn add(&mut self, prop: &str, seed: u64, stream: &str, index: u64, o: CaseOutcome) {
        self.evaluations += 1;
        let h = fnv(&o.input);
        self.distinct.insert(h);
        if o.nontrivial {
            self.nontrivial_distinct.insert(h);
        }
        for t in &o.tags {
            *self.tags.entry(t.clone()).or_insert(0) += 1;
        }
        if self.samples.len() < 3 && o.nontrivial {
            let mut s = o.input.clone();
            if s.len() > 600 {
                s.truncate(600);
                s.push_str("...");
            }
            self.samples.push(s);
        }
        if let Some((i, m)) = &o.disagreement {
            if self.disagreements.len() < 20 {
                self.disagreements.push(serde_json::json!({
                    "property": prop, "kind": "correspondence", "seed": seed, "stream": stream, "index": index,
                    "input": o.input, "impl": i, "model": m,
                }));
            }
        }
        if let Some(v) = &o.violation {
            // keep a few replays per kind of violation (digits stripped), so that one frequent kind
            // does not crowd out the others
            let norm: String = v.chars().filter(|c| !c.is_ascii_digit()).take(60).collect();
            let key = format!("{}|{}|{:?}", stream, norm, o.violation_class);
            let seen = self.kinds.entry(key).or_insert(0);
            *seen += 1;
            if *seen <= 3 && self.violations.len() < 300 {
                self.violations.push(serde_json::json!({
                    "property": prop, "kind": "property", "seed": seed, "stream": stream, "index": index,
                    "input": o.input, "what": v, "class": o.violation_class,
                }));
            }
        }
    }
}

/// Run `n` cases of stream `stream` over `threads` workers.  `f(index, rng, model)` produces the outcome.
pub fn run_cases<F>(agg: &mut Aggregate, args: &Args, stream: &str, n: u64, f: F)
where
    F: Fn(u64, &mut Rng, &mut ModelProc) -> CaseOutcome + Sync,
{
    let prop: &str = &args.prop;
    let mut seed = args.seed;
    let threads = args.threads;
    let mut first = 0u64;
    let mut n = n;
    if let Some((rs, rseed, ri)) = &args.replay_spec {
        // replay: run exactly the recorded case of the recorded stream
        if rs != stream {
            return;
        }
        seed = *rseed;
        first = *ri;
        n = *ri + 1;
    }
    let next = Mutex::new(first);
    let results: Mutex<Vec<(u64, CaseOutcome)>> = Mutex::new(Vec::new());
    let key = format!("{}/{}", prop, stream);
    std::thread::scope(|s| {
        for _ in 0..threads.max(1) {
            s.spawn(|| {
                let mut model = ModelProc::spawn();
                loop {
                    let i = {
                        let mut g = next.lock().unwrap();
                        if *g >= n {
                            break;
                        }
                        let i = *g;
                        *g += 1;
                        i
                    };
                    let mut rng = Rng::for_case(seed, &key, i);
                    let o = f(i, &mut rng, &mut model);
                    results.lock().unwrap().push((i, o));
                }
            });
        }
    });
    let mut rs = results.into_inner().unwrap();
    rs.sort_by_key(|(i, _)| *i);
    for (i, o) in rs {
        agg.add(prop, seed, stream, i, o);
    }
}

pub struct Args {
    pub prop: String,
    pub tier: String,
    pub seed: u64,
    pub report: String,
    pub replay: Option<String>,
    pub replay_spec: Option<(String, u64, u64)>,
    pub threads: usize,
}

impl Args {
    pub fn quick(&self) -> bool {
        self.tier != "thorough"
    }
    pub fn n(&self, quick: u64, thorough: u64) -> u64 {
        if self.quick() { quick } else { thorough }
    }
}

pub fn write_report(args: &Args, agg: &Aggregate, rule: &str, extra: serde_json::Value) {
    let report = serde_json::json!({
        "property": args.prop,
        "tier": args.tier,
        "seed": args.seed,
        "evaluations": agg.evaluations,
        "distinct": agg.distinct.len(),
        "distinct_nontrivial": agg.nontrivial_distinct.len(),
        "rule": rule,
        "samples": agg.samples,
        "histogram": agg.tags,
        "disagreements": agg.disagreements,
        "violations": agg.violations,
        "extra": extra,
    });
    std::fs::write(&args.report, serde_json::to_string_pretty(&report).unwrap()).expect("write report");
}

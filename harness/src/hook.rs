//! Access to the scripted random source of keepass (present only when built with --cfg keepass_verif).
#[cfg(keepass_verif)]
pub const ENABLED: bool = true;
#[cfg(not(keepass_verif))]
pub const ENABLED: bool = false;

#[cfg(keepass_verif)]
pub fn script(d: Vec<Vec<u8>>) { keepass::verif_hooks::script(d) }
#[cfg(keepass_verif)]
pub fn unscript() { keepass::verif_hooks::unscript() }
#[cfg(keepass_verif)]
pub fn requested() -> Vec<usize> { keepass::verif_hooks::requested() }

#[cfg(not(keepass_verif))]
pub fn script(_d: Vec<Vec<u8>>) {}
#[cfg(not(keepass_verif))]
pub fn unscript() {}
#[cfg(not(keepass_verif))]
pub fn requested() -> Vec<usize> { Vec::new() }

//! C02: legacy containers.  Independent writers of KDBX 3.1 and KDB files (written from the format
//! descriptions; primitives from oracle.rs), generators of their content, and the streams that
//! open what they write with the library and with the extracted Coq readers (Kdbx3.v, Kdb.v).

use crate::common::*;
use crate::fixtures::{Fixture, FIXTURES};
use crate::kdbx::{config_read_term, elements_term, key_elements, open_error_class};
use crate::kdbx2::{independent_keyfile_key, make_base, KDF_BUDGET};
use crate::oracle;
use crate::strict;
use base64::Engine;
use keepass::config::{CompressionConfig, DatabaseConfig, InnerCipherConfig, KdfConfig, OuterCipherConfig};
use keepass::db::{Database, Group, Node, Value};
use keepass::config::DatabaseVersion;

fn b64() -> base64::engine::GeneralPurpose {
    base64::engine::general_purpose::STANDARD
}

/// The inner random stream as KeePass derives it (CryptoRandomStream): Salsa20 keyed with
/// SHA-256(key) and the fixed nonce, ChaCha20 keyed with SHA-512(key)[0..32] / nonce [32..44].
pub fn spec_stream(cipher_id: u32, key: &[u8], len: usize) -> Vec<u8> {
    match cipher_id {
        2 => oracle::inner_stream("salsa20", &oracle::sha256(key), len).expect("salsa20"),
        3 => oracle::inner_stream("chacha20", key, len).expect("chacha20"),
        _ => vec![0u8; len],
    }
}

fn find(hay: &[u8], needle: &[u8], from: usize) -> Option<usize> {
    if needle.is_empty() || hay.len() < needle.len() { return None; }
    (from..=hay.len() - needle.len()).find(|&i| &hay[i..i + needle.len()] == needle)
}

/// Re-encode every protected value of an XML document (document order) from one inner stream to
/// another.  Returns None when a protected value is not base64.
pub fn reprotect(xml: &[u8], old: (u32, &[u8]), new: (u32, &[u8])) -> Option<(Vec<u8>, usize)> {
    reprotect_with(xml, &|n| spec_stream(old.0, old.1, n), &|n| spec_stream(new.0, new.1, n))
}
/// The stream the library uses for a KDBX4 file.  Before the repair F17 it took the Salsa20 key as
/// it was; now it is the KeePass derivation for every cipher.
pub fn crate_kdbx4_stream(cipher_id: u32, key: &[u8], len: usize) -> Vec<u8> {
    spec_stream(cipher_id, key, len)
}
pub fn reprotect_with(xml: &[u8], old: &dyn Fn(usize) -> Vec<u8>, new: &dyn Fn(usize) -> Vec<u8>) -> Option<(Vec<u8>, usize)> {
    let marker = b"Protected=\"True\">";
    // first pass: total length
    let mut total = 0usize;
    let mut pos = 0;
    let mut spans = Vec::new();
    while let Some(p) = find(xml, marker, pos) {
        let st = p + marker.len();
        let en = find(xml, b"<", st)?;
        let raw = b64().decode(&xml[st..en]).ok()?;
        total += raw.len();
        spans.push((st, en, raw));
        pos = en;
    }
    let ks_old = old(total);
    let ks_new = new(total);
    let mut out = Vec::with_capacity(xml.len());
    let mut last = 0;
    let mut off = 0;
    let n = spans.len();
    for (st, en, raw) in spans {
        out.extend_from_slice(&xml[last..st]);
        let re: Vec<u8> = raw.iter().enumerate().map(|(i, b)| b ^ ks_old[off + i] ^ ks_new[off + i]).collect();
        off += raw.len();
        out.extend_from_slice(b64().encode(&re).as_bytes());
        last = en;
    }
    out.extend_from_slice(&xml[last..]);
    Some((out, n))
}

/// every base64 time stamp -> ISO 8601; None if one cannot be expressed (year outside 1..9999)
pub fn iso_all(xml: &[u8]) -> Option<Vec<u8>> {
    let mut out = Vec::with_capacity(xml.len() + 256);
    let base = chrono::NaiveDate::from_ymd_opt(1, 1, 1).unwrap().and_hms_opt(0, 0, 0).unwrap();
    let mut i = 0;
    while i < xml.len() {
        let ends = |s: &[u8]| i >= s.len() && &xml[i - s.len()..i] == s;
        if xml[i] == b'>' && (ends(b"Time") || ends(b"Changed")) && i + 15 <= xml.len() && xml[i + 13] == b'<' && xml[i + 14] == b'/' {
            if let Ok(v) = b64().decode(&xml[i + 1..i + 13]) {
                if v.len() == 8 {
                    let mut a = [0u8; 8];
                    a.copy_from_slice(&v);
                    let t = chrono::Duration::try_seconds(i64::from_le_bytes(a)).and_then(|d| base.checked_add_signed(d))?;
                    use chrono::Datelike;
                    if t.year() < 1 || t.year() > 9999 { return None; }
                    out.push(b'>');
                    out.extend_from_slice(t.format("%Y-%m-%dT%H:%M:%SZ").to_string().as_bytes());
                    i += 13;
                    continue;
                }
            }
        }
        out.push(xml[i]);
        i += 1;
    }
    Some(out)
}

// ---------------------------------------------------------------- KDBX 3.1 writer

pub struct K3 {
    pub minor: u16,
    pub cipher: u8,          // 0 aes 1 twofish 2 chacha20
    pub compression: u32,
    pub master_seed: Vec<u8>,
    pub transform_seed: Vec<u8>,
    pub rounds: u64,
    pub iv: Vec<u8>,
    pub psk: Vec<u8>,
    pub start: Vec<u8>,
    pub inner: u32,          // 0 none 2 salsa20
    pub order: Vec<u8>,      // header field types in file order (1 = comment)
    pub end_field: Vec<u8>,
    pub partition: Vec<usize>,
}

const CIPHER_IDS: [[u8; 16]; 3] = [
    [0x31, 0xc1, 0xf2, 0xe6, 0xbf, 0x71, 0x43, 0x50, 0xbe, 0x58, 0x05, 0x21, 0x6a, 0xfc, 0x5a, 0xff],
    [0xad, 0x68, 0xf2, 0x9f, 0x57, 0x6f, 0x4b, 0xb9, 0xa3, 0x6a, 0xd4, 0x7a, 0xf9, 0x65, 0x34, 0x6c],
    [0xd6, 0x03, 0x8a, 0x2b, 0x8b, 0x6f, 0x4c, 0xb5, 0xa5, 0x24, 0x33, 0x9a, 0x31, 0xdb, 0xb5, 0x9a],
];

impl K3 {
    pub fn gen(rng: &mut Rng) -> K3 {
        let cipher = rng.below(3) as u8;
        let mut order: Vec<u8> = vec![2, 3, 4, 5, 6, 7, 8, 9, 10];
        if rng.chance(1, 2) {
            for i in (1..order.len()).rev() {
                let j = rng.below(i as u64 + 1) as usize;
                order.swap(i, j);
            }
        }
        for _ in 0..rng.below(3) {
            let at = rng.below(order.len() as u64 + 1) as usize;
            order.insert(at, 1);
        }
        K3 {
            minor: *rng.pick(&[1u16, 1, 0, 7]),
            cipher,
            compression: rng.below(2) as u32,
            master_seed: rng.bytes(32),
            transform_seed: rng.bytes(32),
            rounds: *rng.pick(&[0u64, 1, 2, 6000, 77]),
            iv: rng.bytes(if cipher == 2 { 12 } else { 16 }),
            psk: rng.bytes(32),
            start: rng.bytes(32),
            inner: if rng.chance(1, 3) { 0 } else { 2 },
            order,
            end_field: if rng.chance(1, 2) { vec![0x0d, 0x0a, 0x0d, 0x0a] } else { Vec::new() },
            partition: Vec::new(),
        }
    }
    fn field(&self, ty: u8, rng_comment: &mut dyn FnMut() -> Vec<u8>) -> Vec<u8> {
        match ty {
            1 => rng_comment(),
            2 => CIPHER_IDS[self.cipher as usize].to_vec(),
            3 => self.compression.to_le_bytes().to_vec(),
            4 => self.master_seed.clone(),
            5 => self.transform_seed.clone(),
            6 => self.rounds.to_le_bytes().to_vec(),
            7 => self.iv.clone(),
            8 => self.psk.clone(),
            9 => self.start.clone(),
            _ => self.inner.to_le_bytes().to_vec(),
        }
    }
    pub fn header(&self, rng: &mut Rng) -> Vec<u8> {
        let mut h = vec![0x03, 0xd9, 0xa2, 0x9a, 0x67, 0xfb, 0x4b, 0xb5];
        h.extend_from_slice(&self.minor.to_le_bytes());
        h.extend_from_slice(&3u16.to_le_bytes());
        let mut comment = || { let n = rng.below(12) as usize; rng.bytes(n) };
        for &ty in &self.order {
            let b = self.field(ty, &mut comment);
            h.push(ty);
            h.extend_from_slice(&(b.len() as u16).to_le_bytes());
            h.extend_from_slice(&b);
        }
        h.push(0);
        h.extend_from_slice(&(self.end_field.len() as u16).to_le_bytes());
        h.extend_from_slice(&self.end_field);
        h
    }
    /// the whole file for an XML document; blocks of the (compressed) document of random sizes
    pub fn build(&mut self, rng: &mut Rng, xml: &[u8], els: &[Vec<u8>]) -> Vec<u8> {
        let comp = oracle::compress(self.compression as u8, xml).expect("compress");
        let nblocks = match rng.below(4) { 0 => 1, 1 => 2, 2 => rng.range(1, 8), _ => rng.range(1, 40) } as usize;
        let mut left = comp.len();
        let mut payload = self.start.clone();
        let mut pos = 0;
        let mut id: u32 = 0;
        self.partition.clear();
        for i in 0..nblocks {
            if left == 0 { break; }
            let sz = if i + 1 == nblocks { left } else { rng.range(1, left as u64) as usize };
            let blk = &comp[pos..pos + sz];
            payload.extend_from_slice(&id.to_le_bytes());
            payload.extend_from_slice(&oracle::sha256(blk));
            payload.extend_from_slice(&(sz as u32).to_le_bytes());
            payload.extend_from_slice(blk);
            self.partition.push(sz);
            pos += sz;
            left -= sz;
            id += 1;
        }
        payload.extend_from_slice(&id.to_le_bytes());
        payload.extend_from_slice(&[0u8; 32]);
        payload.extend_from_slice(&0u32.to_le_bytes());
        let composite = oracle::sha256(&els.concat());
        let transformed = oracle::kdf(&format!("(aes {})", self.rounds), &self.transform_seed, &composite).expect("kdf");
        let master_key = oracle::sha256(&[&self.master_seed[..], &transformed[..]].concat());
        let enc = oracle::outer_enc(self.cipher, &master_key, &self.iv, &payload).expect("enc");
        let mut f = self.header(rng);
        f.extend_from_slice(&enc);
        f
    }
    pub fn config(&self) -> DatabaseConfig {
        DatabaseConfig {
            version: DatabaseVersion::KDB3(self.minor),
            outer_cipher_config: match self.cipher { 0 => OuterCipherConfig::AES256, 1 => OuterCipherConfig::Twofish, _ => OuterCipherConfig::ChaCha20 },
            compression_config: if self.compression == 1 { CompressionConfig::GZip } else { CompressionConfig::None },
            inner_cipher_config: if self.inner == 2 { InnerCipherConfig::Salsa20 } else { InnerCipherConfig::Plain },
            kdf_config: KdfConfig::Aes { rounds: self.rounds },
        }
    }
}

fn catch<T>(f: impl FnOnce() -> T) -> Result<T, String> {
    std::panic::catch_unwind(std::panic::AssertUnwindSafe(f)).map_err(|e| {
        if let Some(s) = e.downcast_ref::<String>() { s.clone() } else if let Some(s) = e.downcast_ref::<&str>() { s.to_string() } else { "panic".into() }
    })
}

fn xml_class(r: &Result<Vec<u8>, keepass::error::DatabaseOpenError>) -> String {
    match r { Ok(x) => format!("ok {}", hexatom(x)), Err(e) => format!("err {}", open_error_class(e)) }
}
/// "ok <config> <ikey> <xml>" -> "ok <xml>"
fn model3_xml_class(m: &str) -> String {
    if let Some(rest) = m.strip_prefix("ok ") { format!("ok {}", rest.rsplit(' ').next().unwrap_or("")) } else { m.to_string() }
}

// ---------------------------------------------------------------- KDB writer

#[derive(Clone, Debug)]
pub struct GDesc { pub level: u16, pub gid: u32, pub name: String }
#[derive(Clone, Debug)]
pub struct EDesc { pub gid: u32, pub fields: Vec<(u16, Vec<u8>)> }   // payload fields 4,5,6,7,8,13,14 with raw values

const KDB_NAMES: &[&str] = &["A", "A", "General", "Windows", "\u{e9}\u{4e2d}", "x y", "", "Internet", "B"];
const KDB_TEXT: &[&str] = &["", "a", "Sample", "user@example.org", "https://example.org/?q=1&r=2", "p\u{e4}ss w\u{f6}rd", "line1\nline2", "\u{1F511}", "  spaced  ", "<tag>"];

fn rec(ty: u16, v: &[u8]) -> Vec<u8> {
    let mut r = ty.to_le_bytes().to_vec();
    r.extend_from_slice(&(v.len() as u32).to_le_bytes());
    r.extend_from_slice(v);
    r
}
fn cstr(s: &str) -> Vec<u8> {
    let mut v = s.as_bytes().to_vec();
    v.push(0);
    v
}
fn shuffle<T>(rng: &mut Rng, v: &mut Vec<T>) {
    for i in (1..v.len()).rev() {
        let j = rng.below(i as u64 + 1) as usize;
        v.swap(i, j);
    }
}

pub struct KdbContent { pub groups: Vec<GDesc>, pub entries: Vec<EDesc>, pub repeated_ids: bool, pub repeated_sibling_names: bool }

pub fn gen_kdb_content(rng: &mut Rng, allow_repeated_ids: bool) -> KdbContent {
    let ng = match rng.below(4) { 0 => 1, 1 => rng.range(1, 4), _ => rng.range(2, 14) } as usize;
    let mut groups: Vec<GDesc> = Vec::new();
    let mut level: u16 = 0;
    let repeated_ids = allow_repeated_ids && rng.chance(1, 6);
    for i in 0..ng {
        if i > 0 {
            // next level: anything from 0 to previous + 1, at most depth 6
            let max = (level + 1).min(6);
            level = match rng.below(3) { 0 => max, 1 => level.min(max), _ => rng.below(max as u64 + 1) as u16 };
        }
        let gid = if repeated_ids && i > 0 && rng.chance(1, 3) { groups[rng.below(i as u64) as usize].gid_of() } else { 1 + i as u32 * 7 + (rng.below(5) as u32) * 1000 };
        groups.push(GDesc { level, gid, name: rng.pick(KDB_NAMES).to_string() });
    }
    // do two siblings share a name?
    let mut repeated_sibling_names = false;
    {
        // parent of i = nearest earlier group with level-1
        let mut parent = vec![usize::MAX; ng];
        for i in 0..ng {
            if groups[i].level > 0 {
                for j in (0..i).rev() {
                    if groups[j].level + 1 == groups[i].level { parent[i] = j; break; }
                }
            }
        }
        for i in 0..ng { for j in 0..i { if parent[i] == parent[j] && groups[i].level == groups[j].level && groups[i].name == groups[j].name { repeated_sibling_names = true; } } }
    }
    let ne = match rng.below(4) { 0 => 0, 1 => 1, _ => rng.range(1, 16) } as usize;
    let mut entries = Vec::new();
    for _ in 0..ne {
        let gid = groups[rng.below(ng as u64) as usize].gid;
        let mut fields: Vec<(u16, Vec<u8>)> = Vec::new();
        for ty in [4u16, 5, 6, 7, 8, 13] {
            if rng.chance(3, 4) { fields.push((ty, cstr(*rng.pick(KDB_TEXT)))); }
        }
        if rng.chance(1, 2) { let n = rng.below(40) as usize; fields.push((14, rng.bytes(n))); }
        entries.push(EDesc { gid, fields });
    }
    KdbContent { groups, entries, repeated_ids, repeated_sibling_names }
}
impl GDesc { fn gid_of(&self) -> u32 { self.gid } }

/// the plaintext payload: groups then entries, with the fields a KeePass 1 writer adds (times,
/// icons, flags, uuids) in a random order around the ones that carry content
pub fn kdb_payload(rng: &mut Rng, c: &KdbContent) -> Vec<u8> {
    kdb_records(rng, c).concat()
}
/// the same, record by record (type, size, value each)
pub fn kdb_records(rng: &mut Rng, c: &KdbContent) -> Vec<Vec<u8>> {
    let mut p: Vec<Vec<u8>> = Vec::new();
    let time5 = |rng: &mut Rng| rng.bytes(5);
    for g in &c.groups {
        let mut fs: Vec<Vec<u8>> = vec![rec(1, &g.gid.to_le_bytes()), rec(2, &cstr(&g.name)), rec(8, &g.level.to_le_bytes())];
        for ty in 3u16..=6 { if rng.chance(3, 4) { fs.push(rec(ty, &time5(rng))); } }
        if rng.chance(3, 4) { fs.push(rec(7, &(rng.below(70) as u32).to_le_bytes())); }
        if rng.chance(3, 4) { fs.push(rec(9, &0u32.to_le_bytes())); }
        if rng.chance(1, 4) { let n = rng.below(9) as usize; fs.push(rec(0, &rng.bytes(n))); }
        if rng.chance(1, 2) { shuffle(rng, &mut fs); }
        p.extend(fs);
        p.push(rec(0xffff, &[]));
    }
    for e in &c.entries {
        let mut fs: Vec<Vec<u8>> = vec![rec(2, &e.gid.to_le_bytes())];
        if rng.chance(3, 4) { fs.push(rec(1, &rng.bytes(16))); }
        if rng.chance(3, 4) { fs.push(rec(3, &(rng.below(70) as u32).to_le_bytes())); }
        for ty in 9u16..=12 { if rng.chance(3, 4) { fs.push(rec(ty, &time5(rng))); } }
        if rng.chance(1, 4) { let n = rng.below(9) as usize; fs.push(rec(0, &rng.bytes(n))); }
        for (ty, v) in &e.fields { fs.push(rec(*ty, v)); }
        if rng.chance(1, 2) { shuffle(rng, &mut fs); }
        p.extend(fs);
        p.push(rec(0xffff, &[]));
    }
    p
}

pub struct KdbFile { pub twofish: bool, pub rounds: u32, pub subversion: u32 }

pub fn kdb_file(rng: &mut Rng, meta: &KdbFile, ngroups: u32, nentries: u32, payload: &[u8], els: &[Vec<u8>]) -> Vec<u8> {
    let master_seed = rng.bytes(16);
    let iv = rng.bytes(16);
    let tseed = rng.bytes(32);
    let mut h = vec![0x03, 0xd9, 0xa2, 0x9a, 0x65, 0xfb, 0x4b, 0xb5];
    let flags: u32 = 1 | if meta.twofish { 8 } else { 2 };
    h.extend_from_slice(&flags.to_le_bytes());
    h.extend_from_slice(&meta.subversion.to_le_bytes());
    h.extend_from_slice(&master_seed);
    h.extend_from_slice(&iv);
    h.extend_from_slice(&ngroups.to_le_bytes());
    h.extend_from_slice(&nentries.to_le_bytes());
    h.extend_from_slice(&oracle::sha256(payload));
    h.extend_from_slice(&tseed);
    h.extend_from_slice(&meta.rounds.to_le_bytes());
    assert_eq!(h.len(), 124);
    // KeePass 1 key: a lone element is used as it is, several are hashed together
    let composite = if els.len() == 1 { els[0].clone() } else { oracle::sha256(&els.concat()) };
    let transformed = oracle::kdf(&format!("(aes {})", meta.rounds), &tseed, &composite).expect("kdf");
    let master_key = oracle::sha256(&[&master_seed[..], &transformed[..]].concat());
    let enc = oracle::outer_enc(if meta.twofish { 1 } else { 0 }, &master_key, &iv, payload).expect("enc");
    h.extend_from_slice(&enc);
    h
}

// canonical tree terms, the same for the library's result, the expected content and the model's answer
fn fields_term(mut fs: Vec<(Vec<u8>, String)>) -> String {
    fs.sort();
    slist(fs.into_iter().map(|(k, v)| format!("({} {})", hexatom(&k), v)))
}
fn group_term(g: &Group) -> String {
    let kids = g.children.iter().map(|n| match n {
        Node::Group(c) => format!("(g {} {})", hexatom(c.name.as_bytes()), group_term(c)),
        Node::Entry(e) => {
            let fs = e.fields.iter().map(|(k, v)| (k.as_bytes().to_vec(), match v {
                Value::Unprotected(s) => format!("(u {})", hexatom(s.as_bytes())),
                Value::Protected(s) => format!("(p {})", hexatom(s.unsecure())),
                Value::Bytes(b) => format!("(b {})", hexatom(b)),
            })).collect();
            format!("(e {})", fields_term(fs))
        }
    });
    slist(kids)
}
fn trim_nul(v: &[u8]) -> Vec<u8> {
    let mut v = v.to_vec();
    while v.last() == Some(&0) { v.pop(); }
    v
}
fn entry_term(e: &EDesc) -> String {
    let mut map: std::collections::BTreeMap<Vec<u8>, String> = Default::default();
    for (ty, v) in &e.fields {
        let (k, t): (&str, String) = match ty {
            4 => ("Title", format!("(u {})", hexatom(&trim_nul(v)))),
            5 => ("URL", format!("(u {})", hexatom(&trim_nul(v)))),
            6 => ("UserName", format!("(u {})", hexatom(&trim_nul(v)))),
            7 => ("Password", format!("(p {})", hexatom(&trim_nul(v)))),
            8 => ("Additional", format!("(u {})", hexatom(&trim_nul(v)))),
            13 => ("BinaryDesc", format!("(u {})", hexatom(&trim_nul(v)))),
            _ => ("BinaryData", format!("(b {})", hexatom(v))),
        };
        map.insert(k.as_bytes().to_vec(), t);
    }
    format!("(e {})", fields_term(map.into_iter().collect()))
}
/// the content as a tree term: the forest the level numbers denote, every entry under the group
/// whose id it names (with a repeated id: under `owner(gid)`)
fn expected_term(c: &KdbContent, owner: &dyn Fn(u32) -> usize) -> String {
    fn forest(c: &KdbContent, owner: &dyn Fn(u32) -> usize, pos: &mut usize, depth: u16) -> String {
        let mut items = Vec::new();
        while *pos < c.groups.len() && c.groups[*pos].level == depth {
            let i = *pos;
            *pos += 1;
            let sub = forest(c, owner, pos, depth + 1);
            let sub_inner = &sub[1..sub.len() - 1];
            let es: Vec<String> = c.entries.iter().filter(|e| owner(e.gid) == i).map(entry_term).collect();
            let mut inner = sub_inner.to_string();
            for e in es { if !inner.is_empty() { inner.push(' '); } inner.push_str(&e); }
            items.push(format!("(g {} ({}))", hexatom(c.groups[i].name.as_bytes()), inner));
        }
        slist(items)
    }
    let mut pos = 0;
    forest(c, owner, &mut pos, 0)
}

pub fn run(args: &Args) {
    let mut agg = Aggregate::new();

    // ---------------- KDBX 3.1: crate-independent files of generated content
    run_cases(&mut agg, args, "kdbx3", args.n(200, 4_000), |_i, rng, model| {
        let mut o = CaseOutcome::default();
        let Some(base) = make_base(rng, false) else { o.violation = Some("save failed".into()); return o; };
        let els = base.creds.elements();
        let s = match strict::read(&base.bytes, &els) { Ok(s) => s, Err(w) => { o.violation = Some(format!("strict reader rejects: {}", w)); return o; } };
        let mut k3 = K3::gen(rng);
        // KDBX 3.1 surface: ISO-8601 time stamps, protected values under the file's own inner stream
        let Some(xml_iso) = iso_all(&s.xml) else { o.tags.push("skip:time-not-iso-expressible".into()); o.input = "(skipped)".into(); return o; };
        // all protected values in clear first; then (1 case in 4, when the document has one) an uncompressed
        // binary of the Meta pool is marked Protected, as KeePass 2 writes a memory-protected attachment
        // into a KDBX 3.1 file; then everything under the file's own inner stream, in document order
        let Some((xml_plain, _)) = reprotect_with(&xml_iso, &|n| crate_kdbx4_stream(s.inner_cipher, &s.inner_key, n), &|n| vec![0u8; n]) else { o.violation = Some("protected value is not base64".into()); return o; };
        let mut xml_plain = xml_plain;
        let mut protected_meta_binary = false;
        if rng.chance(1, 4) {
            // <Binary ID="n">...   or   <Binary>...   with a non-empty body
            for pat in [&b"<Binary ID=\""[..], &b"<Binary>"[..]] {
                if let Some(p) = find(&xml_plain, pat, 0) {
                    if let Some(gt) = find(&xml_plain, b">", p) {
                        let tag = &xml_plain[p..gt];
                        if find(tag, b"Compressed", 0).is_none() && xml_plain.get(gt + 1) != Some(&b'<') && xml_plain[gt - 1] != b'/' {
                            let mut x = xml_plain[..gt].to_vec();
                            x.extend_from_slice(b" Protected=\"True\"");
                            x.extend_from_slice(&xml_plain[gt..]);
                            xml_plain = x;
                            protected_meta_binary = true;
                            break;
                        }
                    }
                }
            }
        }
        if protected_meta_binary { o.tags.push("protected-meta-binary".into()); }
        let Some((xml3, nprot)) = reprotect_with(&xml_plain, &|n| vec![0u8; n], &|n| spec_stream(k3.inner, &k3.psk, n)) else { o.violation = Some("protected value is not base64".into()); return o; };
        let (xml3, used) = if rng.chance(1, 2) { crate::xmlsurf::vary_no_time(&xml3, rng) } else { (xml3, vec![]) };
        let file = k3.build(rng, &xml3, &els);
        o.input = format!("(kdbx3 cipher {} gzip {} inner {} rounds {} fields {:?} blocks {:?} protected-values {} xml-variants {:?} creds {}{})", k3.cipher, k3.compression, k3.inner, k3.rounds, k3.order, k3.partition.len(), nprot, used, base.creds.kind, if protected_meta_binary { " protected-meta-binary" } else { "" });
        o.tags.push(format!("cipher:{}", ["aes", "twofish", "chacha20"][k3.cipher as usize]));
        o.tags.push(format!("inner:{}", if k3.inner == 2 { "salsa20" } else { "none" }));
        o.tags.push(format!("blocks:{}", match k3.partition.len() { 0 | 1 => "1", 2..=4 => "2-4", _ => ">4" }));
        o.tags.push(format!("creds:{}", base.creds.kind));
        let mut want = base.db.clone();
        want.config = k3.config();
        want.header_attachments = Vec::new();
        // earlier reads of damaged and cut variants of this file on this thread must not matter
        if rng.chance(1, 2) { crate::prior::reads(&file, &base.creds.key(), rng); o.tags.push("after-earlier-reads".into()); }
        match catch(|| Database::open(&mut &file[..], base.creds.key())) {
            Err(p) => o.violation = Some(format!("open panicked: {}", p)),
            Ok(Err(e)) => o.violation = Some(format!("a conforming KDBX 3.1 file does not open: {}", open_error_class(&e))),
            Ok(Ok(d)) => if d != want {
                o.violation = Some(format!("a KDBX 3.1 file opens to different content: {}", crate::diff::first_difference(&want, &d)));
                if protected_meta_binary { o.violation_class = Some("kdbx3-protected-meta-binary".into()); }
            }
        }
        let dec = model.eval_with(&format!("(decrypt3 {} {})", hexatom(&file), elements_term(&els)), &oracle::serve);
        let impl_x = xml_class(&Database::get_xml(&mut &file[..], base.creds.key()));
        if model3_xml_class(&dec) != impl_x { o.disagreement = Some((impl_x.chars().take(200).collect(), dec.chars().take(200).collect())); }
        else if dec.starts_with("ok ") && !dec.contains(&config_read_term(&want.config)) { o.disagreement = Some((config_read_term(&want.config), dec.chars().take(200).collect())); }
        o.nontrivial = nprot > 0 || k3.partition.len() > 1;
        o
    });

    // ---------------- KDB: generated forests and entries
    run_cases(&mut agg, args, "kdb", args.n(1_500, 40_000), |_i, rng, model| {
        let mut o = CaseOutcome::default();
        let c = gen_kdb_content(rng, true);
        // KeePass 1 uses a lone key element as it is, so it must be 32 bytes long
        let mut creds = crate::kdbx2::gen_creds(rng);
        while { let e = creds.elements(); e.len() == 1 && e[0].len() != 32 } { creds = crate::kdbx2::gen_creds(rng); }
        let els = creds.elements();
        let payload = kdb_payload(rng, &c);
        let meta = KdbFile { twofish: rng.chance(1, 2), rounds: *rng.pick(&[0u32, 1, 3, 50, 600]), subversion: *rng.pick(&[0x00030004u32, 0x00030002, 0x00030004]) };
        let file = kdb_file(rng, &meta, c.groups.len() as u32, c.entries.len() as u32, &payload, &els);
        o.input = format!("(kdb cipher {} rounds {} groups {:?} entries {:?} creds {})", if meta.twofish { "twofish" } else { "aes" }, meta.rounds,
            c.groups.iter().map(|g| (g.level, g.gid, g.name.clone())).collect::<Vec<_>>(), c.entries.iter().map(|e| (e.gid, e.fields.iter().map(|f| f.0).collect::<Vec<_>>())).collect::<Vec<_>>(), creds.kind);
        o.tags.push(format!("cipher:{}", if meta.twofish { "twofish" } else { "aes" }));
        o.tags.push(format!("creds:{}", creds.kind));
        o.tags.push(format!("depth:{}", c.groups.iter().map(|g| g.level).max().unwrap_or(0)));
        if c.repeated_ids { o.tags.push("repeated-group-ids".into()); }
        if c.repeated_sibling_names { o.tags.push("repeated-sibling-names".into()); }
        // the group an id names: the only one, or (repeated ids) the last one in file order, as the model proves
        let owner = |gid: u32| c.groups.iter().rposition(|g| g.gid == gid).unwrap_or(usize::MAX);
        let want = expected_term(&c, &owner);
        if rng.chance(1, 3) { crate::prior::reads(&file, &creds.key(), rng); o.tags.push("after-earlier-reads".into()); }
        let got = catch(|| Database::open(&mut &file[..], creds.key()));
        let got_term = match &got {
            Err(p) => format!("panic {}", p),
            Ok(Err(e)) => format!("err {}", open_error_class(e)),
            Ok(Ok(d)) => format!("ok {}", group_term(&d.root)),
        };
        match &got {
            Err(p) => o.violation = Some(format!("open panicked: {}", p)),
            Ok(Err(e)) => o.violation = Some(format!("a conforming KDB file does not open: {}", open_error_class(e))),
            Ok(Ok(d)) => {
                if d.root.name != "Root" { o.violation = Some("root group is not named Root".into()); }
                let t = group_term(&d.root);
                if t != want {
                    // with repeated ids any group carrying the id satisfies the property
                    let ok_any = c.repeated_ids && {
                        // try every assignment consistent with the ids: compare multiset per id instead
                        let first = |gid: u32| c.groups.iter().position(|g| g.gid == gid).unwrap_or(usize::MAX);
                        t == expected_term(&c, &first)
                    };
                    if !ok_any {
                        o.violation = Some(format!("a KDB file opens to a different tree: want {} got {}", want.chars().take(300).collect::<String>(), t.chars().take(300).collect::<String>()));
                        o.violation_class = Some(if c.repeated_sibling_names { "kdb-repeated-sibling-names".into() } else { "kdb-tree".into() });
                    }
                }
                let cfg_ok = d.config.version == DatabaseVersion::KDB(meta.subversion as u16)
                    && d.config.kdf_config == (KdfConfig::Aes { rounds: meta.rounds as u64 })
                    && d.config.outer_cipher_config == if meta.twofish { OuterCipherConfig::Twofish } else { OuterCipherConfig::AES256 };
                if !cfg_ok && o.violation.is_none() { o.violation = Some("reported configuration differs from the header".into()); }
            }
        }
        let m = model.eval_with(&format!("(kdb-open {} {})", hexatom(&file), elements_term(&els)), &oracle::serve);
        let m_tree = if let Some(rest) = m.strip_prefix("ok ") { format!("ok {}", rest.splitn(4, ' ').nth(3).unwrap_or("")) } else { m.clone() };
        if m_tree != got_term { o.disagreement = Some((got_term.chars().take(300).collect(), m_tree.chars().take(300).collect())); }
        else if m.starts_with("ok ") {
            let head = format!("ok {} {} {} ", meta.subversion as u16, if meta.twofish { "twofish" } else { "aes256" }, meta.rounds);
            if !m.starts_with(&head) { o.disagreement = Some((head, m.chars().take(60).collect())); }
        }
        o.nontrivial = c.groups.len() > 1 && !c.entries.is_empty();
        o
    });

    // ---------------- the repository's legacy files
    run_cases(&mut agg, args, "fixtures-legacy", FIXTURES.len() as u64, |i, _rng, model| {
        let mut o = CaseOutcome::default();
        let f: &Fixture = &FIXTURES[i as usize];
        let b = f.bytes();
        o.input = format!("(fixture {})", f.file);
        if b.len() < 12 { return o; }
        let kfk = f.keyfile_bytes().map(|k| independent_keyfile_key(&k));
        let els = key_elements(f.password, kfk.as_deref());
        if crate::kdbx2::any_format_kdf_cost(&b) > 50 * KDF_BUDGET { o.tags.push("fixture:kdf-too-costly".into()); return o; }
        if b[4..8] == [0x67, 0xfb, 0x4b, 0xb5] && b[10] == 3 {
            o.tags.push("fixture:kdbx3".into());
            let dec = model.eval_with(&format!("(decrypt3 {} {})", hexatom(&b), elements_term(&els)), &oracle::serve);
            let impl_x = xml_class(&Database::get_xml(&mut &b[..], f.key()));
            if model3_xml_class(&dec) != impl_x { o.disagreement = Some((impl_x.chars().take(200).collect(), dec.chars().take(200).collect())); }
            if let (Ok(db), true) = (Database::parse(&b, f.key()), dec.starts_with("ok ")) {
                if !dec.contains(&config_read_term(&db.config)) { o.disagreement = Some((config_read_term(&db.config), dec.chars().take(200).collect())); }
            }
            o.nontrivial = impl_x.starts_with("ok ");
        } else if b[4..8] == [0x65, 0xfb, 0x4b, 0xb5] {
            o.tags.push("fixture:kdb".into());
            let got = catch(|| Database::open(&mut &b[..], f.key()));
            let got_term = match &got { Err(p) => format!("panic {}", p), Ok(Err(e)) => format!("err {}", open_error_class(e)), Ok(Ok(d)) => format!("ok {}", group_term(&d.root)) };
            let m = model.eval_with(&format!("(kdb-open {} {})", hexatom(&b), elements_term(&els)), &oracle::serve);
            let m_tree = if let Some(rest) = m.strip_prefix("ok ") { format!("ok {}", rest.splitn(4, ' ').nth(3).unwrap_or("")) } else { m.clone() };
            if m_tree != got_term { o.disagreement = Some((got_term.chars().take(300).collect(), m_tree.chars().take(300).collect())); }
            o.nontrivial = got_term.starts_with("ok ");
        } else {
            o.tags.push("fixture:other".into());
        }
        o
    });

    write_report(args, &agg, "streams: kdbx3 (databases over the whole object model, saved by the crate as KDBX4, decoded by the independent strict reader, their XML re-expressed for KDBX 3.1 - ISO-8601 time stamps, protected values re-encoded under the file's own inner stream derived as KeePass derives it - and framed by an independent KDBX 3.1 writer: every outer cipher, gzip or none, Salsa20 or no inner stream, header fields in any order with comment fields, 1..40 hashed blocks, every credential composition), kdb (generated group forests to depth 6 given by level numbers with repeated names and, in a tagged sub-population, repeated ids; 0..16 entries with arbitrary field subsets assigned to arbitrary groups; AES or Twofish; every credential composition; records in shuffled order with the ignored fields KeePass 1 writes) and fixtures-legacy (the repository's KDBX3 and KDB files); non-trivial = protected values or several blocks (kdbx3), several groups and at least one entry (kdb); distinct = distinct input description", serde_json::json!({}));
}

// ---------------------------------------------------------------- C06: authenticated, malformed interiors

fn kdb_result_terms(file: &[u8], key: keepass::DatabaseKey, els: &[Vec<u8>], model: &mut ModelProc) -> (String, String) {
    let got = catch(|| Database::open(&mut &file[..], key));
    let got_term = match &got { Err(p) => format!("panic {}", p), Ok(Err(e)) => format!("err {}", open_error_class(e)), Ok(Ok(d)) => format!("ok {}", group_term(&d.root)) };
    let m = model.eval_with(&format!("(kdb-open {} {})", hexatom(file), elements_term(els)), &oracle::serve);
    let m_tree = if let Some(rest) = m.strip_prefix("ok ") { format!("ok {}", rest.splitn(4, ' ').nth(3).unwrap_or("")) } else { m.clone() };
    (got_term, m_tree)
}

/// Streams of C06 over the legacy formats: files that authenticate under the key (content hash,
/// stream start bytes, block hashes recomputed after the damage) but whose interior is malformed.
pub fn c06_streams(agg: &mut Aggregate, args: &Args) {
    run_cases(agg, args, "kdb-structure", args.n(2_000, 20_000), |_i, rng, model| {
        let mut o = CaseOutcome::default();
        let c = gen_kdb_content(rng, true);
        let mut creds = crate::kdbx2::gen_creds(rng);
        while { let e = creds.elements(); e.len() == 1 && e[0].len() != 32 } { creds = crate::kdbx2::gen_creds(rng); }
        let els = creds.elements();
        let mut recs = kdb_records(rng, &c);
        let (mut ng, mut ne) = (c.groups.len() as u32, c.entries.len() as u32);
        let extreme: [u32; 12] = [0xffff_ffff, 0xffff_fffa, 0xffff_fff9, 0xffff_fffb, 0x8000_0000, 0x7fff_ffff, 0x0001_0000, 0, 1, 3, 6, 17];
        let mut tail_cut: Option<usize> = None;
        let kind = match rng.below(12) {
            0 | 1 => { let i = rng.below(recs.len() as u64) as usize; let v = *rng.pick(&extreme); recs[i][2..6].copy_from_slice(&v.to_le_bytes()); "record-size-extreme" }
            2 => { // size = exactly what remains, one more, one less
                let i = rng.below(recs.len() as u64) as usize;
                let remaining: usize = recs[i..].iter().map(|r| r.len()).sum::<usize>() - 6;
                let v = (remaining as i64 + rng.range(0, 2) as i64 - 1).max(0) as u32;
                recs[i][2..6].copy_from_slice(&v.to_le_bytes()); "record-size-remaining" }
            3 => { let i = rng.below(recs.len() as u64) as usize; let t: u16 = *rng.pick(&[0u16, 10, 15, 0x7fff, 0xfffe, 0x000e, 0x000f, 9, 13]); recs[i][0..2].copy_from_slice(&t.to_le_bytes()); "record-type" }
            4 => { let total: usize = recs.iter().map(|r| r.len()).sum(); tail_cut = Some(rng.below(total as u64 + 1) as usize); "payload-truncated" }
            5 => { ng = match rng.below(4) { 0 => ng + 1, 1 => ng.saturating_sub(1), 2 => 0xffff_ffff, _ => ng + ne }; "group-count" }
            6 => { ne = match rng.below(4) { 0 => ne + 1, 1 => ne.saturating_sub(1), 2 => 0xffff_ffff, _ => 0 }; "entry-count" }
            7 => { let i = rng.below(recs.len() as u64) as usize; recs.remove(i); "record-removed" }
            8 => { let i = rng.below(recs.len() as u64) as usize; let r = recs[i].clone(); recs.insert(i, r); "record-duplicated" }
            9 => { // a fixed-width field with another width
                let i = rng.below(recs.len() as u64) as usize; let n = rng.below(8) as usize; let t = u16::from_le_bytes([recs[i][0], recs[i][1]]); recs[i] = rec(t, &rng.bytes(n)); "field-width" }
            10 => { // level numbers: jumps and extremes
                for r in recs.iter_mut() { if r[0] == 8 && r[1] == 0 && r.len() == 8 && rng.chance(1, 2) { let v: u16 = *rng.pick(&[0xffffu16, 7, 2, 3, 0x8000]); r[6..8].copy_from_slice(&v.to_le_bytes()); break; } } "level-value" }
            _ => { let i = rng.below(recs.len() as u64) as usize; let j = rng.below(recs.len() as u64) as usize; recs.swap(i, j); "records-swapped" }
        };
        let mut payload = recs.concat();
        if let Some(k) = tail_cut { payload.truncate(k); }
        let meta = KdbFile { twofish: rng.chance(1, 2), rounds: *rng.pick(&[0u32, 1, 3]), subversion: 0x00030004 };
        let file = kdb_file(rng, &meta, ng, ne, &payload, &els);
        o.input = format!("(kdb-structure {} cipher {} groups {} entries {} payload {} bytes)", kind, if meta.twofish { "twofish" } else { "aes" }, ng, ne, payload.len());
        o.tags.push(format!("mutation:{}", kind));
        let (got, m) = kdb_result_terms(&file, creds.key(), &els, model);
        o.tags.push(format!("open:{}", got.split(' ').take(2).collect::<Vec<_>>().join(" ").chars().take(40).collect::<String>().replace(|c: char| c == '(' , "")));
        if got.starts_with("panic") { o.violation = Some(format!("open panicked on an authenticated malformed KDB file ({}): {}", kind, got)); o.violation_class = Some(crate::kdbx2::panic_class(&got)); }
        // text fields damaged into invalid UTF-8 are outside the model (lossy conversion)
        let comparable = !got.starts_with("ok ") || !got.contains("efbfbd");   // U+FFFD: a text field was not UTF-8
        if m != got && !got.starts_with("panic") && comparable { o.disagreement = Some((format!("{} {}", kind, got.chars().take(200).collect::<String>()), m.chars().take(200).collect())); }
        o.nontrivial = true;
        o
    });

    run_cases(agg, args, "kdbx3-structure", args.n(300, 3_000), |_i, rng, model| {
        let mut o = CaseOutcome::default();
        let Some(base) = make_base(rng, true) else { o.violation = Some("save failed".into()); return o; };
        let els = base.creds.elements();
        let Ok(s) = strict::read(&base.bytes, &els) else { return o; };
        let mut k3 = K3::gen(rng);
        k3.rounds = k3.rounds.min(100);
        let Some(xml_iso) = iso_all(&s.xml) else { o.input = "(skipped)".into(); return o; };
        let Some((xml3, _)) = reprotect_with(&xml_iso, &|n| crate_kdbx4_stream(s.inner_cipher, &s.inner_key, n), &|n| spec_stream(k3.inner, &k3.psk, n)) else { return o; };
        let mut xml3 = xml3;
        // interior damage, then framing that authenticates it
        let pre = rng.below(7);
        let kind_pre = match pre {
            0 => { let k = rng.below(xml3.len() as u64 + 1) as usize; xml3.truncate(k); "xml-truncated" }
            1 => { if let Some(p) = find(&xml3, b"Time>", 0) { let e = (p + 5 + 6).min(xml3.len()); for b in &mut xml3[p + 5..e] { *b = b'9'; } } "time-text-damaged" }
            2 => { xml3 = b"<KeePassFile><Root><Group><Entry><String><Key>k</Key><Value Protected=\"True\">!!!!</Value></String></Entry></Group></Root></KeePassFile>".to_vec(); "protected-not-base64" }
            _ => "xml-intact",
        };
        let file = k3.build(rng, &xml3, &els);
        let hl = k3.header(rng).len();
        let _ = hl;
        // post-framing damage needs re-encryption: rebuild the plaintext payload by hand
        let comp = oracle::compress(k3.compression as u8, &xml3).expect("compress");
        let mut payload = k3.start.clone();
        let kind = match rng.below(8) {
            0 => { // block with an extreme size word
                let v: u32 = *rng.pick(&[0xffff_ffffu32, 0xffff_ffd8, 0x8000_0000, comp.len() as u32 + 1, 0x7fff_ffff]);
                payload.extend_from_slice(&0u32.to_le_bytes()); payload.extend_from_slice(&oracle::sha256(&comp)); payload.extend_from_slice(&v.to_le_bytes()); payload.extend_from_slice(&comp); "block-size-extreme" }
            1 => { // no final block
                payload.extend_from_slice(&0u32.to_le_bytes()); payload.extend_from_slice(&oracle::sha256(&comp)); payload.extend_from_slice(&(comp.len() as u32).to_le_bytes()); payload.extend_from_slice(&comp); "no-final-block" }
            2 => { // final block only
                payload.extend_from_slice(&0u32.to_le_bytes()); payload.extend_from_slice(&[0u8; 32]); payload.extend_from_slice(&0u32.to_le_bytes()); "empty-stream" }
            3 => { // payload cut inside a block header
                payload.extend_from_slice(&0u32.to_le_bytes()); payload.extend_from_slice(&oracle::sha256(&comp)); payload.extend_from_slice(&(comp.len() as u32).to_le_bytes()); payload.extend_from_slice(&comp);
                let k = 32 + rng.below(45) as usize; payload.truncate(k.min(payload.len())); "cut-in-block-header" }
            4 => { let n = rng.below(32) as usize; payload.truncate(n); "short-stream-start" }
            6 => { // the stream-start FIELD of the header shorter than 32 bytes (down to empty) and a payload that
                // begins with it and is shorter than 32 bytes as well: the credential check passes
                let m = rng.below(32) as usize;
                k3.start.truncate(m);
                payload = k3.start.clone();
                let extra = rng.below((32 - m) as u64) as usize;
                payload.extend_from_slice(&rng.bytes(extra));
                "short-stream-start-field" }
            5 => { // wrong hash
                payload.extend_from_slice(&0u32.to_le_bytes()); payload.extend_from_slice(&[7u8; 32]); payload.extend_from_slice(&(comp.len() as u32).to_le_bytes()); payload.extend_from_slice(&comp);
                payload.extend_from_slice(&1u32.to_le_bytes()); payload.extend_from_slice(&[0u8; 32]); payload.extend_from_slice(&0u32.to_le_bytes()); "wrong-block-hash" }
            _ => "",
        };
        let file = if kind.is_empty() { file } else {
            let composite = oracle::sha256(&els.concat());
            let transformed = oracle::kdf(&format!("(aes {})", k3.rounds), &k3.transform_seed, &composite).expect("kdf");
            let master_key = oracle::sha256(&[&k3.master_seed[..], &transformed[..]].concat());
            let enc = oracle::outer_enc(k3.cipher, &master_key, &k3.iv, &payload).expect("enc");
            let mut f = k3.header(rng);
            f.extend_from_slice(&enc);
            f
        };
        let kind_s = format!("{}+{}", kind_pre, if kind.is_empty() { "framing-intact" } else { kind });
        o.input = format!("(kdbx3-structure {} cipher {} gzip {} inner {})", kind_s, k3.cipher, k3.compression, k3.inner);
        o.tags.push(format!("mutation:{}", kind_s));
        let impl_x = match catch(|| Database::get_xml(&mut &file[..], base.creds.key())) { Ok(r) => xml_class(&r), Err(p) => { o.violation = Some(format!("get_xml panicked on an authenticated malformed KDBX 3.1 file ({}): {}", kind_s, p)); o.violation_class = Some(crate::kdbx2::panic_class(&p)); "panic".into() } };
        match catch(|| Database::open(&mut &file[..], base.creds.key()).map(|_| ())) {
            Err(p) => { o.violation = Some(format!("open panicked on an authenticated malformed KDBX 3.1 file ({}): {}", kind_s, p)); o.violation_class = Some(crate::kdbx2::panic_class(&p)); }
            Ok(r) => { o.tags.push(format!("open:{}", match r { Ok(()) => "ok".to_string(), Err(e) => open_error_class(&e) })); }
        }
        let dec = model.eval_with(&format!("(decrypt3 {} {})", hexatom(&file), elements_term(&els)), &oracle::serve);
        if model3_xml_class(&dec) != impl_x && impl_x != "panic" { o.disagreement = Some((format!("{} {}", kind_s, impl_x.chars().take(160).collect::<String>()), dec.chars().take(200).collect())); }
        o.nontrivial = true;
        o
    });
}

//! Development probes (timings etc.)
use crate::fixtures::*;
use keepass::Database;
pub fn run() {
    for f in FIXTURES {
        let b = f.bytes();
        let t = std::time::Instant::now();
        let r = Database::parse(&b, f.key());
        println!("{:55} {:6} bytes  {:8.1} ms  {}", f.file, b.len(), t.elapsed().as_secs_f64() * 1000.0, match r { Ok(_) => "ok".to_string(), Err(e) => format!("{:?}", e) });
    }
}

pub fn det() {
    use crate::common::Rng;
    let mut rng = Rng(5);
    let db = crate::c11::small_db(&mut rng);
    let key = keepass::DatabaseKey::new().with_password("pw");
    let draws: Vec<Vec<u8>> = crate::c11::draw_sizes(&db.config).into_iter().map(|n| rng.bytes(n)).collect();
    let mut outs = Vec::new();
    for _ in 0..3 {
        crate::hook::script(draws.clone());
        let mut v = Vec::new();
        db.save(&mut v, key.clone()).unwrap();
        println!("requested {:?}", crate::hook::requested());
        crate::hook::unscript();
        let xml = Database::get_xml(&mut &v[..], key.clone()).unwrap();
        outs.push((v, xml));
    }
    for i in 1..3 {
        let d = outs[0].0.iter().zip(outs[i].0.iter()).position(|(a, b)| a != b);
        println!("file diff at {:?} of {}", d, outs[0].0.len());
        let dx = outs[0].1.iter().zip(outs[i].1.iter()).position(|(a, b)| a != b);
        println!("xml diff at {:?}", dx);
        if let Some(p) = dx {
            let s = p.saturating_sub(80);
            println!("A: {}", String::from_utf8_lossy(&outs[0].1[s..(p + 80).min(outs[0].1.len())]));
            println!("B: {}", String::from_utf8_lossy(&outs[i].1[s..(p + 80).min(outs[i].1.len())]));
        }
    }
}

/// round trip of single strings through save/open (which characters are lossy?)
pub fn chars() {
    use keepass::db::{Entry, Node, Value};
    for t in ["a;b", "a,b", "a\rb", "a\r\nb", "\r", "a\nb", " lead", "trail ", "a\tb", "\u{85}", "\u{2028}", "a b"] {
        let mut db = Database::new(Default::default());
        let mut e = Entry::default();
        e.fields.insert("Title".into(), Value::Unprotected(t.to_string()));
        e.fields.insert("P".into(), Value::Protected(t.as_bytes().into()));
        e.tags.push(format!("x{}y", t));
        db.root.children.push(Node::Entry(e));
        db.root.notes = Some(t.to_string());
        let key = keepass::DatabaseKey::new().with_password("pw");
        let mut v = Vec::new();
        db.save(&mut v, key.clone()).unwrap();
        match Database::open(&mut &v[..], key) {
            Ok(d) => println!("{:?}: equal={} notes={:?} tags={:?}", t, d == db, d.root.notes, d.root.children.iter().filter_map(|n| if let Node::Entry(e) = n { Some(e.tags.clone()) } else { None }).collect::<Vec<_>>()),
            Err(e) => println!("{:?}: open error {:?}", t, e),
        }
    }
}

/// F-b probe: the source changes only a member of Times (expiry) at a later time
pub fn times_only() {
    use keepass::db::{Entry, Node, Value};
    let mk = |s: i64| chrono::DateTime::from_timestamp(s, 0).unwrap().naive_utc();
    let mut anc = Database::new(Default::default());
    let mut e = Entry::default();
    e.uuid = uuid::Uuid::from_u128(7);
    e.fields.insert("Title".into(), Value::Unprotected("t".into()));
    e.times.set_creation(mk(100));
    e.times.set_last_modification(mk(100));
    e.times.set_location_changed(mk(100));
    anc.root.children.push(Node::Entry(e));
    anc.root.times.set_last_modification(mk(100));
    let mut dst = anc.clone();
    let mut src = anc.clone();
    if let Node::Entry(e) = &mut src.root.children[0] {
        e.times.expires = true;
        e.times.set_expiry(mk(5000));
        e.times.set_last_modification(mk(200));
    }
    let r = dst.merge(&src);
    println!("merge result: {:?}", r.map(|l| format!("{:?}", l)));
    if let Node::Entry(e) = &dst.root.children[0] {
        println!("destination after merge: lm={:?} expires={} expiry={:?}", e.times.get_last_modification(), e.times.expires, e.times.get_expiry());
    }
}

/// root group renamed by the source at a later time
pub fn root_rename() {
    let mk = |s: i64| chrono::DateTime::from_timestamp(s, 0).unwrap().naive_utc();
    let mut anc = Database::new(Default::default());
    anc.root.uuid = uuid::Uuid::from_u128(1);
    anc.root.name = "Root".into();
    anc.root.times.set_last_modification(mk(100));
    let mut dst = anc.clone();
    let mut src = anc.clone();
    src.root.name = "Passwords".into();
    src.root.notes = Some("renamed in the source".into());
    src.root.times.set_last_modification(mk(200));
    let r = dst.merge(&src);
    println!("merge result: {:?}", r.map(|l| format!("{:?}", l)));
    println!("destination root after merge: name={:?} notes={:?} lm={:?}", dst.root.name, dst.root.notes, dst.root.times.get_last_modification());
}

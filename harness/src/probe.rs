//! Development probes (timings etc.)
use crate::fixtures::*;
use keepass::Database;
pub fn run() {
    for f in FIXTURES {
        let b = f.bytes();
        let t = std::time::Instant::now();
        let r = Database::parse(&b, f.key());
        println!("{:55} {:6} bytes  {:8.1} ms  {}", f.file, b.len(), t.elapsed().as_secs_f64() * 1000.0, match r { Ok(_) => "ok".to_string(), Err(e) => format!("{:?}", e) });
    }
}

pub fn det() {
    use crate::common::Rng;
    let mut rng = Rng(5);
    let db = crate::c11::small_db(&mut rng);
    let key = keepass::DatabaseKey::new().with_password("pw");
    let draws: Vec<Vec<u8>> = crate::c11::draw_sizes(&db.config).into_iter().map(|n| rng.bytes(n)).collect();
    let mut outs = Vec::new();
    for _ in 0..3 {
        crate::hook::script(draws.clone());
        let mut v = Vec::new();
        db.save(&mut v, key.clone()).unwrap();
        println!("requested {:?}", crate::hook::requested());
        crate::hook::unscript();
        let xml = Database::get_xml(&mut &v[..], key.clone()).unwrap();
        outs.push((v, xml));
    }
    for i in 1..3 {
        let d = outs[0].0.iter().zip(outs[i].0.iter()).position(|(a, b)| a != b);
        println!("file diff at {:?} of {}", d, outs[0].0.len());
        let dx = outs[0].1.iter().zip(outs[i].1.iter()).position(|(a, b)| a != b);
        println!("xml diff at {:?}", dx);
        if let Some(p) = dx {
            let s = p.saturating_sub(80);
            println!("A: {}", String::from_utf8_lossy(&outs[0].1[s..(p + 80).min(outs[0].1.len())]));
            println!("B: {}", String::from_utf8_lossy(&outs[i].1[s..(p + 80).min(outs[i].1.len())]));
        }
    }
}

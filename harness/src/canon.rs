//! Canonical, injective text forms of keepass values (maps sorted by key, secrets as hex, times as
//! seconds+nanos) and the interning of "data blocks" to numbers for the abstract tree model.

use chrono::NaiveDateTime;
use keepass::db::{AutoType, Color, CustomData, Entry, Group, Times, Value};
use std::collections::HashMap;

pub fn time_s(t: &NaiveDateTime) -> String {
    let u = t.and_utc();
    if u.timestamp_subsec_nanos() == 0 {
        format!("{}", u.timestamp())
    } else {
        format!("{}.{:09}", u.timestamp(), u.timestamp_subsec_nanos())
    }
}
pub fn time_secs(t: &NaiveDateTime) -> i64 {
    t.and_utc().timestamp()
}
pub fn mk_time(secs: i64) -> NaiveDateTime {
    chrono::DateTime::from_timestamp(secs, 0).unwrap().naive_utc()
}

pub fn value_s(v: &Value) -> String {
    match v {
        Value::Bytes(b) => format!("B:{}", hex::encode(b)),
        Value::Unprotected(s) => format!("U:{:?}", s),
        Value::Protected(p) => format!("P:{}", hex::encode(p.unsecure())),
    }
}
pub fn opt_s<T>(o: &Option<T>, f: impl Fn(&T) -> String) -> String {
    match o {
        None => "-".into(),
        Some(x) => format!("+{}", f(x)),
    }
}
pub fn color_s(c: &Color) -> String {
    format!("{},{},{}", c.r, c.g, c.b)
}
pub fn custom_data_s(c: &CustomData) -> String {
    let mut ks: Vec<&String> = c.items.keys().collect();
    ks.sort();
    let mut out = String::from("{");
    for k in ks {
        let it = &c.items[k];
        out.push_str(&format!("{:?}=>({},{});", k, opt_s(&it.value, value_s), opt_s(&it.last_modification_time, time_s)));
    }
    out.push('}');
    out
}
pub fn autotype_s(a: &AutoType) -> String {
    let assoc: Vec<String> = a
        .associations
        .iter()
        .map(|x| format!("({:?},{:?})", x.window, x.sequence))
        .collect();
    format!("at({},{:?},[{}])", a.enabled, a.sequence, assoc.join(";"))
}

/// Everything in an Entry except uuid, times and history.
pub fn entry_data_s(e: &Entry) -> String {
    let mut ks: Vec<&String> = e.fields.keys().collect();
    ks.sort();
    let mut f = String::from("{");
    for k in ks {
        f.push_str(&format!("{:?}=>{};", k, value_s(&e.fields[k])));
    }
    f.push('}');
    format!(
        "fields{} at{} tags{:?} cd{} icon{:?} cicon{:?} fg{} bg{} url{:?} qc{:?}",
        f,
        opt_s(&e.autotype, autotype_s),
        e.tags,
        custom_data_s(&e.custom_data),
        e.icon_id,
        e.custom_icon_uuid,
        opt_s(&e.foreground_color, color_s),
        opt_s(&e.background_color, color_s),
        e.override_url,
        e.quality_check
    )
}

/// Everything in a Group except uuid, times and children.
pub fn group_data_s(g: &Group) -> String {
    format!(
        "name{:?} notes{:?} icon{:?} cicon{:?} cd{} exp{} das{:?} ea{:?} es{:?} ltv{:?}",
        g.name,
        g.notes,
        g.icon_id,
        g.custom_icon_uuid,
        custom_data_s(&g.custom_data),
        g.is_expanded,
        g.default_autotype_sequence,
        g.enable_autotype,
        g.enable_searching,
        g.last_top_visible_entry
    )
}

/// The Times record without LastModificationTime and LocationChanged.
pub fn times_rest_s(t: &Times) -> String {
    let mut ks: Vec<&String> = t
        .times
        .keys()
        .filter(|k| k.as_str() != "LastModificationTime" && k.as_str() != "LocationChanged")
        .collect();
    ks.sort();
    let mut out = format!("exp{} uc{} {{", t.expires, t.usage_count);
    for k in ks {
        out.push_str(&format!("{:?}=>{};", k, time_s(&t.times[k])));
    }
    out.push('}');
    out
}
pub fn times_full_s(t: &Times) -> String {
    let mut ks: Vec<&String> = t.times.keys().collect();
    ks.sort();
    let mut out = format!("exp{} uc{} {{", t.expires, t.usage_count);
    for k in ks {
        out.push_str(&format!("{:?}=>{};", k, time_s(&t.times[k])));
    }
    out.push('}');
    out
}

/// Interner: canonical block text -> small number.  `rest` id 0 is reserved for Times::default().
pub struct Interner {
    data: HashMap<String, u64>,
    rest: HashMap<String, u64>,
}

impl Interner {
    pub fn new() -> Interner {
        let mut rest = HashMap::new();
        rest.insert(times_rest_s(&Times::default()), 0);
        Interner { data: HashMap::new(), rest }
    }
    pub fn data(&mut self, s: String) -> u64 {
        let n = self.data.len() as u64 + 1;
        *self.data.entry(s).or_insert(n)
    }
    pub fn rest(&mut self, s: String) -> u64 {
        let n = self.rest.len() as u64;
        *self.rest.entry(s).or_insert(n)
    }

    fn opt_time(t: Option<&NaiveDateTime>) -> String {
        match t {
            None => "none".into(),
            // sub-second parts are not representable in the model; the generators use whole seconds
            Some(t) => format!("(some {})", time_secs(t)),
        }
    }
    pub fn times(&mut self, t: &Times) -> String {
        format!(
            "({} {} {})",
            Self::opt_time(t.get_last_modification()),
            Self::opt_time(t.get_location_changed()),
            self.rest(times_rest_s(t))
        )
    }
    /// model term of an entry: (e uuid data times hist)
    pub fn entry(&mut self, e: &Entry) -> String {
        let hist = match &e.history {
            None => "none".to_string(),
            Some(h) => {
                let items: Vec<String> = h.get_entries().iter().map(|x| self.entry(x)).collect();
                format!("(some ({}))", items.join(" "))
            }
        };
        format!("(e {} {} {} {})", e.uuid.as_u128(), self.data(entry_data_s(e)), self.times(&e.times), hist)
    }
}

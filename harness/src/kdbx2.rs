//! Reader-side KDBX4 properties over files derived from real `save` outputs and fixtures:
//! C01 (conforming layouts and XML surface forms), C04 (wrong credentials), C05 (alterations
//! without the key), C06 (malformed input never panics), C20 (composite key).

use crate::common::*;
use crate::dbgen::*;
use crate::fixtures::*;
use crate::frame::Parts;
use crate::kdbx::*;
use crate::oracle;
use crate::strict;
use keepass::{Database, DatabaseKey};

#[derive(Clone)]
pub struct Creds {
    pub password: Option<String>,
    pub keyfile: Option<Vec<u8>>,
    /// the key-file key a conforming implementation derives (independent derivation)
    pub keyfile_key: Option<Vec<u8>>,
    pub kind: &'static str,
}

impl Creds {
    pub fn key(&self) -> DatabaseKey {
        make_key(self.password.as_deref(), self.keyfile.as_deref())
    }
    pub fn elements(&self) -> Vec<Vec<u8>> {
        key_elements(self.password.as_deref(), self.keyfile_key.as_deref())
    }
}

fn hex_upper(b: &[u8]) -> String {
    b.iter().map(|x| format!("{:02X}", x)).collect()
}

/// key files in every documented encoding, with the key they must yield
pub fn gen_keyfile(rng: &mut Rng) -> (Vec<u8>, Vec<u8>, &'static str) {
    match rng.below(9) {
        8 => {
            // 64 hexadecimal characters and nothing else (what some KeePass ports write as a "hex key
            // file"): for this property it is "any other file", i.e. hashed; either case or mixed
            let k = rng.bytes(32);
            let mut h = match rng.below(3) { 0 => hex_upper(&k), 1 => hex::encode(&k), _ => hex::encode(&k).chars().enumerate().map(|(i, c)| if i % 3 == 0 { c.to_ascii_uppercase() } else { c }).collect() };
            if !h.bytes().any(|c| c.is_ascii_alphabetic()) { h.replace_range(0..1, "a"); }
            let d = h.into_bytes(); let kk = oracle::sha256(&d); (d, kk, "hashed-hex-text") }
        0 => { let k = rng.bytes(32); (k.clone(), k, "raw-32-bytes") }
        1 => {
            // any other file is hashed: short ones, and (1 in 4) files of several KiB around buffer sizes
            let n = if rng.chance(1, 4) { *rng.pick(&[4095usize, 4096, 4097, 5000, 8192, 8193, 20_000, 65_535, 65_536, 65_537, 100_000]) } else { rng.below(200) as usize };
            let n = if n == 32 { 33 } else { n };
            let d = rng.bytes(n); let k = oracle::sha256(&d); (d, k, "hashed-arbitrary-bytes") }
        2 => {
            // version 1.00 XML, base64 payload of 32 bytes
            let k = rng.bytes(32);
            let b64 = base64::Engine::encode(&base64::engine::general_purpose::STANDARD, &k);
            let sep = rng.pick(&["", "\n", "\r\n\t", "  "]).to_string();
            let x = format!("<?xml version=\"1.0\" encoding=\"utf-8\"?>{s}<KeyFile>{s}<Meta>{s}<Version>1.00</Version>{s}</Meta>{s}<Key>{s}<Data>{}</Data>{s}</Key>{s}</KeyFile>{s}", b64, s = sep);
            (x.into_bytes(), k, "xml-v1")
        }
        3 => {
            // version 1.00 XML with a payload of another length
            let n = *rng.pick(&[1usize, 16, 31, 33, 64]);
            let k = rng.bytes(n);
            let b64 = base64::Engine::encode(&base64::engine::general_purpose::STANDARD, &k);
            let x = format!("<KeyFile><Meta><Version>1.00</Version></Meta><Key><Data>{}</Data></Key></KeyFile>", b64);
            (x.into_bytes(), k, "xml-v1-other-length")
        }
        4 | 5 => {
            // version 2.0 XML, hex payload with the white space KeePass writes (incl. TAB indentation), either case
            let k = rng.bytes(32);
            let h = if rng.chance(1, 2) { hex_upper(&k) } else { hex::encode(&k) };
            let ws = rng.pick(&[" ", "\n\t\t\t", "\r\n      ", "\t", ""]).to_string();
            let mut spaced = String::new();
            for (i, c) in h.chars().enumerate() {
                if i > 0 && i % 8 == 0 { spaced.push_str(&ws); }
                spaced.push(c);
            }
            let hash = hex_upper(&oracle::sha256(&k)[..4]);
            let x = format!("<?xml version=\"1.0\" encoding=\"utf-8\"?>\n<KeyFile>\n\t<Meta>\n\t\t<Version>2.0</Version>\n\t</Meta>\n\t<Key>\n\t\t<Data Hash=\"{}\">{w}{}{w}</Data>\n\t</Key>\n</KeyFile>\n", hash, spaced, w = ws);
            (x.into_bytes(), k, "xml-v2")
        }
        6 => {
            // XML without key data: falls through to the hash of the whole file
            // (no Data element at all, or one that is empty, self-closing or holds white space only)
            let hole = *rng.pick(&["", "<Data></Data>", "<Data/>", "<Data> \n\t</Data>", "<Data Hash=\"00000000\"></Data>"]);
            let ver = *rng.pick(&["1.00", "2.0"]);
            let x = format!("<KeyFile><Meta><Version>{}</Version></Meta><Key>{}</Key></KeyFile><!-- {} -->", ver, hole, rng.next()).into_bytes();
            let k = oracle::sha256(&x);
            (x, k, "xml-without-data")
        }
        _ => { let x = format!("<KeyFile><Key><Data>unterminated {}", rng.next()).into_bytes(); let k = oracle::sha256(&x); (x, k, "xml-like-garbage") }
    }
}

pub fn gen_creds(rng: &mut Rng) -> Creds {
    let pw = match rng.below(6) { 0 => None, 1 => Some(String::new()), 2 => Some("p\u{e4}ss \u{1F511}".to_string()), 3 => Some("with\0nul".to_string()), _ => Some(format!("pw{}", rng.below(1000))) };
    let kf = if pw.is_none() || rng.chance(1, 2) { Some(gen_keyfile(rng)) } else { None };
    match kf {
        Some((file, key, kind)) => Creds { password: pw, keyfile: Some(file), keyfile_key: Some(key), kind },
        None => Creds { password: pw, keyfile: None, keyfile_key: None, kind: "password-only" },
    }
}

pub struct Base {
    pub db: Database,
    pub creds: Creds,
    pub bytes: Vec<u8>,
}

pub fn make_base(rng: &mut Rng, small: bool) -> Option<Base> {
    make_base_with(rng, small, None)
}
pub fn make_base_with(rng: &mut Rng, small: bool, creds: Option<Creds>) -> Option<Base> {
    let creds = match creds { Some(c) => c, None => gen_creds(rng) };
    let mut db = { let mut g = G::new(rng, Mode::Lossless, false); if small { let cfg = g.config(true); let mut d = Database::new(cfg); d.root = g.group(0); d } else { g.database(true) } };
    if small { db.root.children.truncate(2); }
    let draws: Vec<Vec<u8>> = draw_sizes(&db.config).into_iter().map(|n| rng.bytes(n)).collect();
    crate::hook::script(draws);
    let mut out = Vec::new();
    let r = db.save(&mut out, creds.key());
    crate::hook::unscript();
    r.ok()?;
    Some(Base { db, creds, bytes: out })
}

fn xml_class(r: &Result<Vec<u8>, keepass::error::DatabaseOpenError>) -> String {
    match r { Ok(x) => format!("ok {}", hexatom(x)), Err(e) => format!("err {}", open_error_class(e)) }
}
fn model_xml_class(model_s: &str) -> String {
    // "ok <config> <atts> <ikey> <xml>" -> "ok <xml>"
    if let Some(rest) = model_s.strip_prefix("ok ") { format!("ok {}", rest.rsplit(' ').next().unwrap_or("")) } else { model_s.to_string() }
}

/// the cost the file's own KDF parameters demand (AES rounds, or Argon2 iterations x KiB), read
/// leniently from the outer header; None if the header cannot be walked.  Mutants whose cost exceeds
/// the budget are skipped: the property excludes time and memory the file legitimately demands.
pub fn kdf_cost(file: &[u8]) -> Option<u64> {
    let mut pos = 12;
    loop {
        if pos + 5 > file.len() { return None; }
        let ty = file[pos];
        let len = u32::from_le_bytes([file[pos + 1], file[pos + 2], file[pos + 3], file[pos + 4]]) as usize;
        if pos + 5 + len > file.len() { return None; }
        if ty == 0 { return Some(0); }
        if ty == 11 {
            let vd = &file[pos + 5..pos + 5 + len];
            let mut p = 2;
            let (mut r, mut i, mut m, mut par) = (0u64, 1u64, 0u64, 1u64);
            while p + 9 < vd.len() {
                let kl = u32::from_le_bytes([vd[p + 1], vd[p + 2], vd[p + 3], vd[p + 4]]) as usize;
                if p + 5 + kl + 4 > vd.len() { break; }
                let k = &vd[p + 5..p + 5 + kl];
                let q = p + 5 + kl;
                let vl = u32::from_le_bytes([vd[q], vd[q + 1], vd[q + 2], vd[q + 3]]) as usize;
                if q + 4 + vl > vd.len() { break; }
                let v = &vd[q + 4..q + 4 + vl];
                let num = |v: &[u8]| { let mut a = [0u8; 8]; for (j, b) in v.iter().take(8).enumerate() { a[j] = *b; } u64::from_le_bytes(a) };
                match k { b"R" => r = num(v), b"I" => i = num(v), b"M" => m = num(v), b"P" => par = num(v), _ => {} }
                p = q + 4 + vl;
            }
            return Some(r.saturating_add(i.saturating_mul(m / 1024).saturating_mul(par.max(1)) / 16));
        }
        pos += 5 + len;
    }
}
pub const KDF_BUDGET: u64 = 200_000;

/// KDF cost for any of the three formats (KDBX4 dictionary, KDBX3 transform-rounds field, KDB rounds word)
pub fn any_format_kdf_cost(f: &[u8]) -> u64 {
    if f.len() < 12 { return 0; }
    if f[4..8] == [0x65, 0xfb, 0x4b, 0xb5] {
        return if f.len() >= 124 { u32::from_le_bytes([f[120], f[121], f[122], f[123]]) as u64 } else { 0 };
    }
    let major = u16::from_le_bytes([f[10], f[11]]);
    if major == 4 { return kdf_cost(f).unwrap_or(0); }
    // KDBX3: (type u8, len u16) fields; type 6 = transform rounds (u64)
    let mut pos = 12;
    let mut worst = 0u64;
    while pos + 3 <= f.len() {
        let ty = f[pos];
        let len = u16::from_le_bytes([f[pos + 1], f[pos + 2]]) as usize;
        if pos + 3 + len > f.len() { break; }
        if ty == 6 { let mut a = [0u8; 8]; for (j, b) in f[pos + 3..pos + 3 + len].iter().take(8).enumerate() { a[j] = *b; } worst = worst.max(u64::from_le_bytes(a)); }
        if ty == 0 { break; }
        pos += 3 + len;
    }
    worst
}

fn catch<T>(f: impl FnOnce() -> T) -> Result<T, String> {
    std::panic::catch_unwind(std::panic::AssertUnwindSafe(f)).map_err(|p| p.downcast_ref::<String>().cloned().or_else(|| p.downcast_ref::<&str>().map(|s| s.to_string())).unwrap_or_default())
}

// ---------------------------------------------------------------------------------------------
pub fn run(args: &Args) {
    let prop = args.prop.clone();
    let mut agg = Aggregate::new();
    match prop.as_str() {
        "C01" => c01(args, &mut agg),
        "C04" => c04(args, &mut agg),
        "C05" => c05(args, &mut agg),
        "C06" => c06(args, &mut agg),
        "C20" => c20(args, &mut agg),
        _ => {}
    }
}

// ---------------- C01: every conforming layout opens to the stored content ----------------
fn c01(args: &Args, agg: &mut Aggregate) {
    run_cases(agg, args, "layouts", args.n(250, 5_000), |_i, rng, model| {
        let mut o = CaseOutcome::default();
        let Some(base) = make_base(rng, false) else { o.violation = Some("save failed".into()); return o; };
        let els = base.creds.elements();
        let s = match strict::read(&base.bytes, &els) { Ok(s) => s, Err(w) => { o.violation = Some(format!("strict reader rejects: {}", w)); return o; } };
        let mut parts = Parts::of(&base.bytes, &s, &els);
        parts.relayout(rng);
        // the inner header re-laid-out: another inner stream and key (protected values re-encoded in
        // document order under the stream KeePass derives from that key), fields in another order
        let mut want = base.db.clone();
        let mut xml1 = s.xml.clone();
        let mut inner_hdr = parts.payload[..parts.payload.len() - s.xml.len()].to_vec();
        let mut inner_note = "kept".to_string();
        if rng.chance(1, 2) {
            let new_cipher: u32 = *rng.pick(&[0u32, 2, 3, 3]);
            let klen = match new_cipher { 2 => 32, 3 => if rng.chance(1, 2) { 64 } else { 32 }, _ => 1 + rng.below(8) as usize };
            let new_key = rng.bytes(klen);
            if let Some((x, _n)) = crate::legacy::reprotect_with(&s.xml, &|n| crate::legacy::crate_kdbx4_stream(s.inner_cipher, &s.inner_key, n), &|n| crate::legacy::spec_stream(new_cipher, &new_key, n)) {
                xml1 = x;
                let (p_id, p_key) = (rng.below(s.attachments.len() as u64 + 1) as usize, rng.below(s.attachments.len() as u64 + 1) as usize);
                inner_hdr = crate::frame::inner_header(&s.attachments, new_cipher, &new_key, p_id, p_key);
                want.config.inner_cipher_config = match new_cipher { 2 => keepass::config::InnerCipherConfig::Salsa20, 3 => keepass::config::InnerCipherConfig::ChaCha20, _ => keepass::config::InnerCipherConfig::Plain };
                inner_note = format!("{}->{} key {} bytes", s.inner_cipher, new_cipher, new_key.len());
                o.tags.push(format!("inner:{}", match new_cipher { 2 => "salsa20", 3 => "chacha20", _ => "none" }));
            }
        }
        // XML surface variation inside the payload (after the inner header)
        let (xml2, used) = crate::xmlsurf::vary(&xml1, rng);
        parts.payload = inner_hdr;
        parts.payload.extend_from_slice(&xml2);
        let file = parts.build();
        o.input = format!("(layout fields {:?} partition {:?} end-field {} inner {} xml-variants {:?} creds {})", parts.fields.iter().map(|f| f.0).collect::<Vec<_>>(), parts.partition, parts.end_field.len(), inner_note, used, base.creds.kind);
        for u in &used { o.tags.push(format!("xml:{}", u)); }
        o.tags.push(format!("blocks:{}", match parts.partition.len() { 0 | 1 => "1", 2..=4 => "2-4", _ => ">4" }));
        o.tags.push(format!("creds:{}", base.creds.kind));
        // earlier reads on this thread must not matter: damaged and cut variants of this file, and (below) the
        // file itself before a sibling that shares its credentials and KDF seed
        if rng.chance(1, 2) { crate::prior::reads(&file, &base.creds.key(), rng); o.tags.push("after-earlier-reads".into()); }
        let opened = catch(|| Database::open(&mut &file[..], base.creds.key()));
        // a sibling file: same content, credentials, KDF seed - other KDF parameters (one more round or
        // iteration, the other Argon2 variant); a reader that remembers a derived key per (credentials, seed)
        // gets this one wrong
        if rng.chance(1, 2) {
            let mut ents = crate::frame::vd_entries_of(&base.bytes, &s);
            let t: Vec<&str> = s.kdf.trim_matches(|c| c == '(' || c == ')').split(' ').collect();
            let (desc2, kdf2) = if t[0] == "aes" {
                let r: u64 = t[1].parse().unwrap_or(1);
                for e in ents.iter_mut() { if e.0 == b"R".to_vec() { e.2 = (r + 1).to_le_bytes().to_vec(); } }
                (format!("(aes {})", r + 1), keepass::config::KdfConfig::Aes { rounds: r + 1 })
            } else {
                let (i, m, p): (u64, u64, u32) = (t[2].parse().unwrap_or(1), t[3].parse().unwrap_or(8192), t[4].parse().unwrap_or(1));
                let version = if t[5] == "16" { argon2::Version::Version10 } else { argon2::Version::Version13 };
                if rng.chance(1, 2) {
                    for e in ents.iter_mut() { if e.0 == b"I".to_vec() { e.2 = (i + 1).to_le_bytes().to_vec(); } }
                    let k = if t[1] == "id" { keepass::config::KdfConfig::Argon2id { iterations: i + 1, memory: m, parallelism: p, version } } else { keepass::config::KdfConfig::Argon2 { iterations: i + 1, memory: m, parallelism: p, version } };
                    (format!("(argon2 {} {} {} {} {})", t[1], i + 1, m, p, t[5]), k)
                } else {
                    const D: [u8; 16] = [0xef, 0x63, 0x6d, 0xdf, 0x8c, 0x29, 0x44, 0x4b, 0x91, 0xf7, 0xa9, 0xa4, 0x03, 0xe3, 0x0a, 0x0c];
                    const ID: [u8; 16] = [0x9e, 0x29, 0x8b, 0x19, 0x56, 0xdb, 0x47, 0x73, 0xb2, 0x3d, 0xfc, 0x3e, 0xc6, 0xf0, 0xa1, 0xe6];
                    let to_id = t[1] != "id";
                    for e in ents.iter_mut() { if e.0 == b"$UUID".to_vec() { e.2 = if to_id { ID.to_vec() } else { D.to_vec() }; } }
                    let k = if to_id { keepass::config::KdfConfig::Argon2id { iterations: i, memory: m, parallelism: p, version } } else { keepass::config::KdfConfig::Argon2 { iterations: i, memory: m, parallelism: p, version } };
                    (format!("(argon2 {} {} {} {} {})", if to_id { "id" } else { "d" }, i, m, p, t[5]), k)
                }
            };
            let composite = oracle::sha256(&els.concat());
            if let Some(t2) = oracle::kdf(&desc2, &s.kdf_seed, &composite) {
                let mut p2 = parts.clone();
                p2.transformed = t2;
                if let Some(f) = p2.fields.iter_mut().find(|f| f.0 == 11) { f.1 = crate::frame::vd_bytes(&ents); }
                let file2 = p2.build();
                let mut want2 = want.clone();
                want2.config.kdf_config = kdf2;
                o.tags.push("sibling:same-seed-other-kdf-parameters".into());
                match catch(|| Database::open(&mut &file2[..], base.creds.key())) {
                    Err(p) => o.violation = Some(format!("open panicked: {}", p)),
                    Ok(Err(e)) => o.violation = Some(format!("a file with the same credentials and KDF seed as the one opened before, under KDF {}, does not open: {}", desc2, open_error_class(&e))),
                    Ok(Ok(d)) => if d != want2 { o.violation = Some(format!("the sibling file ({}) opens to different content: {}", desc2, crate::diff::first_difference(&want2, &d))); }
                }
            }
        }
        match opened {
            Err(p) => o.violation = Some(format!("open panicked: {}", p)),
            Ok(Err(e)) => o.violation = Some(format!("a conforming layout of the same content does not open: {}", open_error_class(&e))),
            Ok(Ok(d)) => if d != want {
                o.violation = Some(format!("a conforming layout opens to different content: {}", crate::diff::first_difference(&want, &d)));
                if want.config.inner_cipher_config == keepass::config::InnerCipherConfig::Salsa20 && inner_note != "kept" { o.violation_class = Some("kdbx4-salsa20-key".into()); }
            }
        }
        // framing correspondence on the re-laid-out file
        let dec = model.eval_with(&format!("(decrypt4 {} {})", hexatom(&file), elements_term(&els)), &oracle::serve);
        let impl_x = xml_class(&Database::get_xml(&mut &file[..], base.creds.key()));
        if model_xml_class(&dec) != impl_x {
            o.disagreement = Some((impl_x.chars().take(200).collect(), dec.chars().take(200).collect()));
        }
        o.nontrivial = parts.partition.len() > 1 || !used.is_empty();
        o
    });
    // the repository's files written by KeePass / KeePassXC
    run_cases(agg, args, "fixtures", FIXTURES.len() as u64, |i, _rng, model| {
        let mut o = CaseOutcome::default();
        let f = &FIXTURES[i as usize];
        let b = f.bytes();
        o.input = format!("(fixture {})", f.file);
        if b.len() < 12 || b[4..8] != [0x67, 0xfb, 0x4b, 0xb5] || b[10] != 4 { o.tags.push("fixture:not-kdbx4".into()); return o; }
        // key elements, derived independently: password hash, then the key-file key
        let kfk = f.keyfile_bytes().map(|k| independent_keyfile_key(&k));
        let els = key_elements(f.password, kfk.as_deref());
        let dec = model.eval_with(&format!("(decrypt4 {} {})", hexatom(&b), elements_term(&els)), &oracle::serve);
        let impl_x = xml_class(&Database::get_xml(&mut &b[..], f.key()));
        if model_xml_class(&dec) != impl_x {
            o.disagreement = Some((impl_x.chars().take(200).collect(), dec.chars().take(200).collect()));
        }
        if let (Ok(db), true) = (Database::parse(&b, f.key()), dec.starts_with("ok ")) {
            if !dec.contains(&config_read_term(&db.config)) {
                o.disagreement = Some((config_read_term(&db.config), dec.chars().take(200).collect()));
            }
        }
        o.nontrivial = impl_x.starts_with("ok ");
        o.tags.push("fixture:kdbx4".into());
        o
    });
    write_report(args, agg, "streams: layouts (databases over the whole object model saved by the crate, then re-laid-out by an independent builder: header fields permuted, comment fields, KeePass-style end field, KDF dictionary permuted, 1..64 HMAC blocks of >= 1 byte, and the XML rewritten with other empty-element forms, ISO-8601 time stamps, Protected attribute case, unknown elements, inter-element white space and comments; every credential composition and key-file encoding) and fixtures (the repository's KDBX4 files written by KeePass/KeePassXC); non-trivial = more than one block or at least one XML variation; distinct = distinct layout description", serde_json::json!({}));
}

/// the events keepass' parse_xml_keyfile sees (xml-rs run directly by the harness), as model terms
pub fn keyfile_events(bytes: &[u8]) -> String {
    let mut out = Vec::new();
    for ev in xml::reader::EventReader::new(bytes) {
        match ev {
            Ok(xml::reader::XmlEvent::StartElement { name, .. }) => out.push(format!("(s {})", hexatom(name.local_name.as_bytes()))),
            Ok(xml::reader::XmlEvent::EndElement { .. }) => out.push("e".to_string()),
            Ok(xml::reader::XmlEvent::Characters(s)) => out.push(format!("(c {})", hexatom(s.as_bytes()))),
            Ok(_) => out.push("o".to_string()),
            Err(_) => { out.push("x".to_string()); break; }
        }
    }
    format!("({})", out.join(" "))
}

/// the documented key-file derivation, written independently (for the fixtures' key files)
pub fn independent_keyfile_key(file: &[u8]) -> Vec<u8> {
    let text = String::from_utf8_lossy(file).to_string();
    if let (Some(a), Some(b)) = (text.find("<Data"), text.find("</Data>")) {
        if let Some(gt) = text[a..].find('>') {
            let data = &text[a + gt + 1..b];
            let v2 = text.contains("<Version>2.0</Version>");
            if v2 {
                let h: String = data.chars().filter(|c| !c.is_whitespace()).collect();
                if let Ok(k) = hex::decode(&h) { return k; }
            } else if let Ok(k) = base64::Engine::decode(&base64::engine::general_purpose::STANDARD, data.trim()) {
                return k;
            }
        }
    }
    if file.len() == 32 { file.to_vec() } else { oracle::sha256(file) }
}

// ---------------- C04: only the exact credentials open ----------------
fn edit_password(rng: &mut Rng, p: &str) -> String {
    let mut cs: Vec<char> = p.chars().collect();
    match rng.below(8) {
        7 if !cs.is_empty() => { // a character replaced by one whose code point differs by a multiple of 256
            // (the same low byte: a lossy single-byte re-encoding of the password cannot tell them apart)
            let i = rng.below(cs.len() as u64) as usize;
            let c = cs[i] as u32;
            let k = rng.range(1, 40) as u32;
            cs[i] = char::from_u32(c + 0x100 * k).filter(|_| c + 0x100 * k < 0xD800).unwrap_or('\u{172}'); }
        0 => { cs.push(' '); }
        1 if !cs.is_empty() => { let i = rng.below(cs.len() as u64) as usize; cs.remove(i); }
        2 => { let i = rng.below(cs.len() as u64 + 1) as usize; cs.insert(i, 'x'); }
        3 if !cs.is_empty() => { let i = rng.below(cs.len() as u64) as usize; cs[i] = if cs[i].is_lowercase() { cs[i].to_ascii_uppercase() } else if cs[i] == 'Z' { 'Y' } else { 'Z' }; }
        4 => { cs.push('\0'); }
        5 => { return p.replace('\u{e4}', "a\u{308}") + if p.contains('\u{e4}') { "" } else { "\u{308}" }; } // NFD variant / combining mark
        _ => { cs.insert(0, ' '); }
    }
    let s: String = cs.into_iter().collect();
    if s == p { format!("{}!", p) } else { s }
}

/// a credential set obtained from `base` by one of the edits of C04's quantifier
pub fn edit_creds(rng: &mut Rng, base: &Creds) -> (Creds, &'static str) {
    let mut c = base.clone();
    let k = rng.below(8);
    let edit = match k {
        0 | 1 | 2 => { match &c.password { Some(p) => { c.password = Some(edit_password(rng, p)); "password-edit" } None => { c.password = Some(String::new()); "password-added-empty" } } }
        3 => { if c.password.is_some() && c.keyfile.is_some() { c.password = None; "password-removed" } else { c.password = Some(format!("{}x", c.password.clone().unwrap_or_default())); "password-edit" } }
        4 => { if c.keyfile.is_some() { c.keyfile = None; c.keyfile_key = None; if c.password.is_none() { "empty-credentials" } else { "keyfile-removed" } } else { let (f, kk, _) = gen_keyfile(rng); c.keyfile = Some(f); c.keyfile_key = Some(kk); "keyfile-added" } }
        5 => { let (f, kk, _) = gen_keyfile(rng); c.keyfile = Some(f); c.keyfile_key = Some(kk); "keyfile-swapped" }
        6 => { c.password = None; c.keyfile = None; c.keyfile_key = None; "empty-credentials" }
        _ => {
            // one bit flipped in the key material of a raw 32-byte key file
            match (&mut c.keyfile, &mut c.keyfile_key) {
                (Some(f), Some(kk)) if f.len() == 32 && rng.chance(1, 4) => { let h = if rng.chance(1, 2) { hex_upper(f) } else { hex::encode(&f[..]) }; *f = h.into_bytes(); *kk = oracle::sha256(f); "keyfile-replaced-by-its-hex-text" }
                (Some(f), Some(kk)) if f.len() == 32 => { let i = rng.below(32) as usize; f[i] ^= 1 << rng.below(8); *kk = f.clone(); "keyfile-bit-flipped" }
                (Some(f), Some(kk)) if base.kind == "hashed-hex-text" => {
                    // a key file of hexadecimal text: the case of one letter changed (one bit), or the file
                    // replaced by the 32 bytes its text spells
                    if rng.chance(2, 3) {
                        let letters: Vec<usize> = (0..f.len()).filter(|&i| f[i].is_ascii_alphabetic()).collect();
                        let i = *rng.pick(&letters); f[i] ^= 0x20; *kk = oracle::sha256(f); "keyfile-letter-case-flipped"
                    } else {
                        let d = hex::decode(&f[..]).unwrap_or_default(); *f = d.clone(); *kk = d; "keyfile-hex-text-decoded"
                    }
                }
                (Some(f), Some(kk)) if base.kind == "hashed-arbitrary-bytes" && f.len() > 40 => {
                    // a hashed key file altered near its end: one bit flipped, a byte appended, the last byte dropped
                    let how = match rng.below(3) {
                        0 => { let i = f.len() - 1 - rng.below(8.min(f.len() as u64)) as usize; f[i] ^= 1 << rng.below(8); "keyfile-tail-bit-flipped" }
                        1 => { f.push(rng.next() as u8); "keyfile-byte-appended" }
                        _ => { f.pop(); "keyfile-last-byte-dropped" }
                    };
                    *kk = if f.len() == 32 { f.clone() } else { oracle::sha256(f) };
                    how
                }
                _ => { c.password = Some(format!("{} ", c.password.clone().unwrap_or_default())); "password-trailing-blank" }
            }
        }
    };
    (c, edit)
}

fn c04(args: &Args, agg: &mut Aggregate) {
    run_cases(agg, args, "wrong-credentials", args.n(200, 4_000), |_i, rng, model| {
        let mut o = CaseOutcome::default();
        let Some(base) = make_base(rng, true) else { o.violation = Some("save failed".into()); return o; };
        o.input = format!("(creds {} password {:?})", base.creds.kind, base.creds.password);
        let right = Database::open(&mut &base.bytes[..], base.creds.key());
        if right.is_err() { o.violation = Some("the right credentials do not open the file".into()); return o; }
        let mut tried = 0;
        for _ in 0..12 {
            let (c, edit) = edit_creds(rng, &base.creds);
            if c.elements() == base.creds.elements() { continue; } // semantically the same credentials
            tried += 1;
            o.tags.push(format!("edit:{}", edit));
            let r = catch(|| Database::open(&mut &base.bytes[..], c.key()));
            let impl_s = match &r {
                Err(p) => { o.violation = Some(format!("open panicked: {}", p)); "panic".to_string() }
                Ok(Ok(_)) => { o.violation = Some(format!("credentials differing by {} opened the database", edit)); "ok".to_string() }
                Ok(Err(e)) => {
                    let cls = open_error_class(e);
                    if cls != "IncorrectKey" { o.violation = Some(format!("wrong credentials ({}) reported as {} instead of a key error", edit, cls)); }
                    format!("err {}", cls)
                }
            };
            let dec = model.eval_with(&format!("(decrypt4 {} {})", hexatom(&base.bytes), elements_term(&c.elements())), &oracle::serve);
            let m = dec.split(' ').take(2).collect::<Vec<_>>().join(" ");
            if m != impl_s && o.disagreement.is_none() { o.disagreement = Some((impl_s, m)); }
        }
        o.nontrivial = tried >= 3;
        o
    });
    // the legacy containers, written by the independent writers under generated credentials
    run_cases(agg, args, "wrong-credentials-legacy", args.n(150, 3_000), |i, rng, _model| {
        let mut o = CaseOutcome::default();
        let mut creds = gen_creds(rng);
        while { let e = creds.elements(); e.len() == 1 && e[0].len() != 32 } { creds = gen_creds(rng); }
        let els = creds.elements();
        let (file, fmt) = if i % 2 == 0 {
            let c = crate::legacy::gen_kdb_content(rng, false);
            let payload = crate::legacy::kdb_payload(rng, &c);
            let meta = crate::legacy::KdbFile { twofish: rng.chance(1, 2), rounds: *rng.pick(&[0u32, 1, 3, 50]), subversion: 0x00030004 };
            (crate::legacy::kdb_file(rng, &meta, c.groups.len() as u32, c.entries.len() as u32, &payload, &els), "kdb")
        } else {
            let Some(base) = make_base(rng, true) else { return o; };
            let Ok(s) = strict::read(&base.bytes, &base.creds.elements()) else { return o; };
            let mut k3 = crate::legacy::K3::gen(rng);
            k3.rounds = k3.rounds.min(100);
            let Some(xml_iso) = crate::legacy::iso_all(&s.xml) else { o.input = "(skipped)".into(); return o; };
            let Some((xml3, _)) = crate::legacy::reprotect(&xml_iso, (s.inner_cipher, &s.inner_key), (k3.inner, &k3.psk)) else { return o; };
            (k3.build(rng, &xml3, &els), "kdbx3")
        };
        o.input = format!("({} {} bytes creds {} password {:?})", fmt, file.len(), creds.kind, creds.password);
        o.tags.push(format!("format:{}", fmt));
        if let Err(e) = Database::open(&mut &file[..], creds.key()) { o.violation = Some(format!("the right credentials do not open the {} file: {}", fmt, open_error_class(&e))); return o; }
        let mut tried = 0;
        for _ in 0..10 {
            let (c, edit) = edit_creds(rng, &creds);
            if c.elements() == els { continue; }
            // KDB uses a lone 32-byte element as it is: SHA-256(password) alone and a raw key file holding those bytes are the same key
            tried += 1;
            o.tags.push(format!("edit:{}", edit));
            match catch(|| Database::open(&mut &file[..], c.key())) {
                Err(p) => o.violation = Some(format!("open panicked: {}", p)),
                Ok(Ok(_)) => o.violation = Some(format!("credentials differing by {} opened the {} database", edit, fmt)),
                Ok(Err(e)) => o.tags.push(format!("error:{}", open_error_class(&e))),
            }
        }
        // KDB uses a lone key element as it is: a key file whose payload is the PASSWORD's bytes (not 32 of
        // them) is not a key at all and must not be hashed into the password-only key
        if fmt == "kdb" && creds.keyfile.is_none() {
            if let Some(pw) = &creds.password {
                if pw.as_bytes().len() != 32 {
                    let b64 = base64::Engine::encode(&base64::engine::general_purpose::STANDARD, pw.as_bytes());
                    for (name, kf) in [("xml-v1-payload-is-password", format!("<KeyFile><Meta><Version>1.00</Version></Meta><Key><Data>{}</Data></Key></KeyFile>", b64)),
                                       ("xml-v2-payload-is-password", format!("<KeyFile><Meta><Version>2.0</Version></Meta><Key><Data>{}</Data></Key></KeyFile>", hex::encode(pw.as_bytes())))] {
                        if pw.is_empty() { continue; }
                        o.tags.push(format!("edit:{}", name));
                        match catch(|| Database::open(&mut &file[..], make_key(None, Some(kf.as_bytes())))) {
                            Err(p) => o.violation = Some(format!("open panicked: {}", p)),
                            Ok(Ok(_)) => o.violation = Some(format!("a key file that merely contains the password's bytes ({}) opened the KDB database", name)),
                            Ok(Err(e)) => o.tags.push(format!("error:{}", open_error_class(&e))),
                        }
                    }
                }
            }
        }
        o.nontrivial = tried >= 3;
        o
    });
    // fixtures with a few wrong credentials each
    run_cases(agg, args, "fixtures", FIXTURES.len() as u64, |i, _rng, _model| {
        let mut o = CaseOutcome::default();
        let f = &FIXTURES[i as usize];
        let b = f.bytes();
        o.input = format!("(fixture {})", f.file);
        if Database::parse(&b, f.key()).is_err() { return o; }
        let wrong: Vec<DatabaseKey> = vec![
            make_key(Some(&format!("{} ", f.password.unwrap_or(""))), f.keyfile_bytes().as_deref()),
            make_key(f.password.map(|p| p.to_uppercase()).as_deref().or(Some("x")), f.keyfile_bytes().as_deref()),
            make_key(f.password, Some(&[7u8; 32])),
            make_key(None, None),
            make_key(Some(""), if f.password.is_some() { None } else { f.keyfile_bytes() }.as_deref()),
        ];
        for (j, k) in wrong.into_iter().enumerate() {
            match catch(|| Database::parse(&b, k)) {
                Err(p) => o.violation = Some(format!("open panicked: {}", p)),
                Ok(Ok(_)) => o.violation = Some(format!("fixture opened with wrong credentials #{}", j)),
                Ok(Err(e)) => { o.tags.push(format!("fixture-wrong:{}", open_error_class(&e))); }
            }
        }
        o.nontrivial = true;
        o
    });
    write_report(args, agg, "streams: wrong-credentials (small saved databases under every credential composition and key-file encoding x up to 12 semantically different credential sets: password substitution (incl. a character with the same low byte, 256 code points away)/insertion/deletion/case/NUL/combining mark/leading or trailing blank, password removed or added, key file removed/added/swapped/one bit flipped, empty credentials; result class compared with the model's decrypt4), wrong-credentials-legacy (KDB and KDBX 3.1 files built by the independent writers under generated credentials x up to 10 such edits: opening must fail with an error) and fixtures (all three formats, five wrong credential sets each); non-trivial = at least three semantically different edits tried", serde_json::json!({}));
}

// ---------------- C05: alterations without the key ----------------
fn c05(args: &Args, agg: &mut Aggregate) {
    let exhaustive = !args.quick();
    run_cases(agg, args, "mutations", args.n(120, 400), |_i, rng, model| {
        let mut o = CaseOutcome::default();
        let Some(base) = make_base(rng, true) else { o.violation = Some("save failed".into()); return o; };
        let els = base.creds.elements();
        let s = match strict::read(&base.bytes, &els) { Ok(s) => s, Err(w) => { o.violation = Some(format!("strict reader rejects: {}", w)); return o; } };
        // a multi-block version of the file (a conforming writer may split the payload)
        let mut parts = Parts::of(&base.bytes, &s, &els);
        let enc_len = s.payload_encrypted.len();
        let nb = if rng.chance(1, 4) { rng.range(5, 24) as usize } else { rng.range(1, 4) as usize };
        parts.partition = (0..nb).map(|i| if i + 1 == nb { enc_len - (enc_len / nb) * (nb - 1) } else { enc_len / nb }).filter(|x| *x > 0).collect();
        let file = parts.build();
        let hl = parts.header().len();
        o.input = format!("(file {} bytes header {} blocks {:?})", file.len(), hl, parts.partition);
        let reference = match Database::open(&mut &file[..], base.creds.key()) { Ok(d) => d, Err(e) => { o.violation = Some(format!("multi-block file does not open: {:?}", e)); return o; } };
        let reference_xml = match Database::get_xml(&mut &file[..], base.creds.key()) { Ok(x) => x, Err(e) => { o.violation = Some(format!("get_xml fails on the multi-block file: {:?}", e)); return o; } };
        let blocks = parts.blocks(&parts.encrypted());
        let n_mut = if exhaustive { 400 } else { 60 };
        let mut accepted_same = 0;
        for m in 0..n_mut {
            let mut f = file.clone();
            let kind = match rng.below(15) {
                14 => { // the whole file rebuilt WITHOUT the key: every key derived from public header bytes only
                    // (the secret part empty, zero, or a hash of the header), for master seeds of usual and unusual
                    // lengths, optionally with a changed payload; tags and ciphertext are consistent under those keys
                    let mut p2 = parts.clone();
                    let n = *rng.pick(&[0usize, 16, 32, 33, 64, 65, 96]);
                    p2.master_seed = rng.bytes(n);
                    if let Some(fl) = p2.fields.iter_mut().find(|f| f.0 == 4) { fl.1 = p2.master_seed.clone(); }
                    p2.transformed = match rng.below(4) { 0 => Vec::new(), 1 => vec![0u8; 32], 2 => oracle::sha256(&p2.master_seed), _ => p2.master_seed.iter().cloned().take(32).collect() };
                    if rng.chance(1, 2) && !p2.payload.is_empty() { let i = rng.below(p2.payload.len() as u64) as usize; p2.payload[i] ^= 1; }
                    p2.partition = vec![];
                    let enc_len = p2.encrypted().len();
                    p2.partition = vec![enc_len];
                    f = p2.build();
                    "rebuilt-without-the-key" }
                12 | 13 => { // three steps: the file cut inside (or right after) the last data block, that block's
                    // length word raised beyond what is left, and (mostly) a ciphertext byte altered
                    let last_data = blocks.len().saturating_sub(2);
                    let start = hl + 64 + blocks[..last_data].iter().map(|b| b.len()).sum::<usize>();
                    let dlen = blocks[last_data].len().saturating_sub(36);
                    if dlen > 0 {
                        let keep = if rng.chance(1, 2) { dlen } else { 1 + rng.below(dlen as u64) as usize };
                        f.truncate(start + 36 + keep);
                        let claimed = (keep as u32).saturating_add(*rng.pick(&[1u32, 16, 36, 1000, 0x7fff_0000]));
                        f[start + 32..start + 36].copy_from_slice(&claimed.to_le_bytes());
                        if rng.chance(3, 4) { let i = start + 36 + rng.below(keep as u64) as usize; f[i] ^= 1 << rng.below(8); }
                    }
                    "cut-raise-length-and-edit" }
                0 | 1 | 2 => { let i = rng.below(f.len() as u64) as usize; let v = rng.range(1, 255) as u8; f[i] ^= v; if i < hl { "byte-header" } else if i < hl + 64 { "byte-hash-or-hmac" } else { "byte-blocks" } }
                3 => { let k = rng.below(f.len() as u64) as usize; f.truncate(k); "truncate" }
                4 => { // truncate at a block boundary (with and without terminator)
                    let keep = rng.below(blocks.len() as u64) as usize; f.truncate(hl + 64 + blocks[..keep].iter().map(|b| b.len()).sum::<usize>()); "drop-tail-blocks" }
                5 => { // permute / duplicate / remove whole blocks
                    let mut bs = blocks.clone();
                    match rng.below(3) { 0 if bs.len() > 1 => { let i = rng.below(bs.len() as u64 - 1) as usize; bs.swap(i, i + 1); } 1 => { let i = rng.below(bs.len() as u64) as usize; let b = bs[i].clone(); bs.insert(i, b); } _ => { let i = rng.below(bs.len() as u64) as usize; bs.remove(i); } }
                    f.truncate(hl + 64); for b in bs { f.extend_from_slice(&b); } "reorder-blocks" }
                6 => { // header field edit with the unkeyed SHA-256 recomputed by the attacker
                    // (the version words at offsets 8..12 belong to the authenticated header as well)
                    let i = if rng.chance(1, 4) { 8 + rng.below(4) as usize } else { 12 + rng.below((hl - 12) as u64) as usize }; f[i] ^= 1 << rng.below(8);
                    let h = oracle::sha256(&f[..hl]); f[hl..hl + 32].copy_from_slice(&h); "header-edit-sha-recomputed" }
                7 => { let n = rng.range(1, 80) as usize; f.extend_from_slice(&rng.bytes(n)); "append-tail" }
                8 => { // multi-byte edit inside the ciphertext
                    for _ in 0..rng.range(2, 16) { let i = hl + 64 + rng.below((f.len() - hl - 64) as u64) as usize; f[i] = rng.next() as u8; } "multi-byte-ciphertext" }
                9 => { // two steps: the closing block removed and a byte of the (now last) data block altered
                    let last_data = blocks.len().saturating_sub(2);
                    let start = hl + 64 + blocks[..last_data].iter().map(|b| b.len()).sum::<usize>();
                    f.truncate(hl + 64 + blocks[..blocks.len() - 1].iter().map(|b| b.len()).sum::<usize>());
                    if blocks[last_data].len() > 36 && f.len() > start + 36 { let i = start + 36 + rng.below((f.len() - start - 36) as u64) as usize; f[i] ^= rng.range(1, 255) as u8; }
                    "no-terminator-and-edit" }
                10 => { // two steps: a tail appended and a byte of the last data block altered
                    let last_data = blocks.len().saturating_sub(2);
                    let start = hl + 64 + blocks[..last_data].iter().map(|b| b.len()).sum::<usize>();
                    if blocks[last_data].len() > 36 { let i = start + 36 + rng.below((blocks[last_data].len() - 36) as u64) as usize; f[i] ^= rng.range(1, 255) as u8; }
                    let n = rng.range(1, 80) as usize; f.extend_from_slice(&rng.bytes(n)); "edit-and-append" }
                _ => { // swap the two 32-byte header check values, or zero one
                    if rng.chance(1, 2) { for j in 0..32 { f.swap(hl + j, hl + 32 + j); } } else { for j in 0..32 { f[hl + 32 + j] = 0; } } "check-values" }
            };
            if f == file { continue; }
            if kdf_cost(&f).map(|c| c > KDF_BUDGET).unwrap_or(false) { o.tags.push("skipped:kdf-cost".into()); continue; }
            o.tags.push(format!("mutation:{}", kind));
            let r = catch(|| Database::open(&mut &f[..], base.creds.key()));
            match &r {
                Err(p) => { o.violation = Some(format!("open of an altered file panicked ({}): {}", kind, p)); }
                Ok(Ok(d)) => {
                    if *d != reference { o.violation = Some(format!("an altered file ({}) opened to DIFFERENT content", kind)); } else { accepted_same += 1; o.tags.push(format!("accepted-same:{}", kind)); }
                }
                Ok(Err(_)) => {}
            }
            // the inner-XML extraction authenticates the same bytes: from an altered file it yields the
            // original document or nothing - never another document or a prefix of it
            if let Ok(Ok(x)) = catch(|| Database::get_xml(&mut &f[..], base.creds.key())) {
                if x != reference_xml { o.violation = Some(format!("get_xml of an altered file ({}) returned a DIFFERENT document ({} bytes instead of {})", kind, x.len(), reference_xml.len())); }
            }
            // correspondence on a sample of the mutants (the model is slower)
            if m % 6 == 0 {
                let dec = model.eval_with(&format!("(decrypt4 {} {})", hexatom(&f), elements_term(&els)), &oracle::serve);
                let impl_x = match catch(|| Database::get_xml(&mut &f[..], base.creds.key())) { Ok(r) => xml_class(&r), Err(_) => "panic".into() };
                if model_xml_class(&dec) != impl_x && o.disagreement.is_none() {
                    o.disagreement = Some((format!("{} {}", kind, impl_x.chars().take(120).collect::<String>()), dec.chars().take(160).collect()));
                }
            }
        }
        let _ = accepted_same;
        // tag sweeps: an authenticated byte is altered (ciphertext of one block, or a header bit with
        // the SHA-256 recomputed) and one byte of the matching 32-byte tag is run through all 256
        // values - a comparison that checks less than the whole tag (a fold, a prefix, a weak
        // accumulator) accepts one of them
        let n_sweeps = if exhaustive { 8 } else { 2 };
        for sw in 0..n_sweeps {
            let mut f = file.clone();
            let (tag_at, kind) = if sw % 2 == 0 && !blocks.is_empty() && blocks[0].len() > 36 {
                // block 0: tag at hl+64, data from hl+64+36
                let dlen = blocks[0].len() - 36;
                let i = hl + 64 + 36 + rng.below(dlen as u64) as usize;
                f[i] ^= rng.range(1, 255) as u8;
                (hl + 64, "sweep-block-tag")
            } else {
                let i = if rng.chance(1, 4) { 8 + rng.below(4) as usize } else { 12 + rng.below((hl - 12) as u64) as usize };
                f[i] ^= 1 << rng.below(8);
                let h = oracle::sha256(&f[..hl]);
                f[hl..hl + 32].copy_from_slice(&h);
                (hl + 32, "sweep-header-tag")
            };
            if kdf_cost(&f).map(|c| c > KDF_BUDGET).unwrap_or(false) { o.tags.push("skipped:kdf-cost".into()); continue; }
            o.tags.push(format!("mutation:{}", kind));
            let pos = tag_at + rng.below(32) as usize;
            for v in 0..=255u8 {
                f[pos] = v;
                match catch(|| Database::open(&mut &f[..], base.creds.key())) {
                    Err(p) => { o.violation = Some(format!("open of an altered file panicked ({}): {}", kind, p)); }
                    Ok(Ok(d)) => if d != reference { o.violation = Some(format!("an altered file ({}: tag byte {} set to {}) opened to DIFFERENT content", kind, pos - tag_at, v)); } else { o.tags.push(format!("accepted-same:{}", kind)); },
                    Ok(Err(_)) => {}
                }
            }
        }
        o.nontrivial = true;
        o
    });
    write_report(args, agg, "small saved databases re-framed into 1..4 (a quarter of the cases 5..24) HMAC blocks x 60 (quick) / 400 (thorough) alterations made without the key: single-byte substitutions anywhere (header, hash, HMAC, block HMACs, lengths, ciphertext), truncation at any offset and at block boundaries with and without the terminator, block swap/duplication/removal, header edits with the SHA-256 recomputed, appended tails, multi-byte ciphertext edits, swapped/zeroed check values, and multi-step alterations (closing block removed + last data block edited; edit + appended tail; file cut inside or after the last data block + that block's length word raised beyond the remaining bytes + a ciphertext bit flipped), and whole files rebuilt without the key (all keys derived from public header bytes only, master seeds of 0..96 bytes); plus 2 (quick) / 8 (thorough) tag sweeps per case (an authenticated byte altered, then one byte of the matching HMAC run through all 256 values); every mutant is opened with the right key (must fail or equal the original) and its inner XML extracted with get_xml (must fail or return the original document), every sixth is also decoded by the model and compared; each case is non-trivial; distinct = distinct file shape", serde_json::json!({"mutants_per_case": if exhaustive { 400 } else { 60 }}));
}

// ---------------- C06: malformed input never panics ----------------
fn c06(args: &Args, agg: &mut Aggregate) {
    let fixture_files: Vec<(Vec<u8>, DatabaseKey)> = FIXTURES.iter().map(|f| (f.bytes(), f.key())).collect();
    // stream 1: prefixes and random damage of every corpus file (all three formats)
    run_cases(agg, args, "corpus-damage", args.n(3_000, 30_000), |_i, rng, _model| {
        let mut o = CaseOutcome::default();
        let fi = rng.below(fixture_files.len() as u64) as usize;
        let (b, key) = &fixture_files[fi];
        let mut f = b.clone();
        let kind = match rng.below(7) {
            0 => { let k = rng.below(f.len() as u64 + 1) as usize; f.truncate(k); "prefix" }
            1 => { let k = rng.below(200.min(f.len()) as u64 + 1) as usize; f.truncate(k); "short-prefix" }
            2 => { for _ in 0..rng.range(1, 4) { let i = rng.below(f.len() as u64) as usize; f[i] = rng.next() as u8; } "bytes" }
            3 => { // overwrite a 4-byte little-endian word in the first 300 bytes with an extreme length
                let i = rng.below(300.min(f.len().saturating_sub(4)) as u64) as usize; let v: u32 = *rng.pick(&[0u32, 1, 0xffff_ffff, 0x7fff_ffff, 0x8000_0000, 65536, 31, 33]); if f.len() >= i + 4 { f[i..i + 4].copy_from_slice(&v.to_le_bytes()); } "length-word" }
            4 => { let n = rng.below(64) as usize; f = rng.bytes(n); "random-bytes" }
            6 => { // the pre-release KeePass 2 signature (an unsupported version), on any corpus file
                if f.len() >= 8 { f[4..8].copy_from_slice(&[0x66, 0xfb, 0x4b, 0xb5]); } "kdb2-signature" }
            _ => { let k = rng.below(f.len() as u64 + 1) as usize; f.truncate(k); let n = rng.below(40) as usize; f.extend_from_slice(&rng.bytes(n)); "prefix-plus-noise" }
        };
        o.input = format!("(damage {} {} -> {} bytes)", FIXTURES[fi].file, kind, f.len());
        if any_format_kdf_cost(&f) > 5_000_000 { o.tags.push("skipped:kdf-cost".into()); return o; }
        o.tags.push(format!("damage:{}", kind));
        for (name, r) in [("open", catch(|| Database::parse(&f, key.clone()).is_ok())), ("get_xml", catch(|| Database::get_xml(&mut &f[..], key.clone()).is_ok())), ("get_version", catch(|| Database::get_version(&mut &f[..]).is_ok()))] {
            if let Err(p) = r { o.violation = Some(format!("{} panicked on damaged input ({}): {}", name, kind, p)); o.violation_class = Some(panic_class(&p)); }
        }
        // arbitrary key-file bytes and passwords
        let kf = f.iter().cloned().take(300).collect::<Vec<u8>>();
        if let Err(p) = catch(|| Database::parse(b, make_key(Some("x"), Some(&kf))).is_ok()) { o.violation = Some(format!("open panicked with an arbitrary key file: {}", p)); o.violation_class = Some(panic_class(&p)); }
        o.nontrivial = true;
        o
    });
    // stream 2: structure-aware, authenticated mutations of KDBX4 files, compared with the model
    run_cases(agg, args, "kdbx4-structure", args.n(400, 4_000), |_i, rng, model| {
        let mut o = CaseOutcome::default();
        let Some(base) = make_base(rng, true) else { o.violation = Some("save failed".into()); return o; };
        let els = base.creds.elements();
        let s = match strict::read(&base.bytes, &els) { Ok(s) => s, Err(w) => { o.violation = Some(format!("strict reader rejects: {}", w)); return o; } };
        let mut parts = Parts::of(&base.bytes, &s, &els);
        let kind: &str = match rng.below(19) {
            17 | 18 => { // a numeric KDF parameter (rounds, iterations, memory, parallelism, version) set to a
                // boundary value; the derived key is recomputed where the independent KDF accepts the value
                let mut ents = crate::frame::vd_entries_of(&base.bytes, &s);
                let nums: Vec<usize> = (0..ents.len()).filter(|&i| (ents[i].1 == 0x04 || ents[i].1 == 0x05) && ents[i].0 != b"S".to_vec()).collect();
                if !nums.is_empty() {
                    let i = *rng.pick(&nums);
                    let v: u64 = *rng.pick(&[0u64, 0, 1, 2, 7, 8, 1023, 1024, 8191, 0x10, 0x13, 0x14, u32::MAX as u64]);
                    ents[i].2 = if ents[i].1 == 0x04 { (v as u32).to_le_bytes().to_vec() } else { v.to_le_bytes().to_vec() };
                    if let Some(f) = parts.fields.iter_mut().find(|f| f.0 == 11) { f.1 = crate::frame::vd_bytes(&ents); }
                }
                "kdf-parameter-boundary" }
            0 => { let i = rng.below(parts.fields.len() as u64) as usize; parts.fields.remove(i); "missing-header-field" }
            1 => { let i = rng.below(parts.fields.len() as u64) as usize; let f = parts.fields[i].clone(); parts.fields.push(f); "duplicate-header-field" }
            2 => { let i = rng.below(parts.fields.len() as u64) as usize; parts.fields[i].0 = *rng.pick(&[5u8, 6, 8, 9, 10, 12, 200]); "unknown-header-type" }
            3 => { let i = rng.below(parts.fields.len() as u64) as usize; let n = rng.below(parts.fields[i].1.len() as u64 + 1) as usize; parts.fields[i].1.truncate(n); "short-header-field" }
            4 => { let i = rng.below(parts.fields.len() as u64) as usize; let n = rng.range(1, 40) as usize; let extra = rng.bytes(n); parts.fields[i].1.extend_from_slice(&extra); "long-header-field" }
            5 => { // damage inside the KDF dictionary
                if let Some(f) = parts.fields.iter_mut().find(|f| f.0 == 11) { let i = rng.below(f.1.len() as u64) as usize; match rng.below(3) { 0 => { f.1[i] = rng.next() as u8; } 1 => { f.1.truncate(i); } _ => { if i + 4 <= f.1.len() { f.1[i..i + 4].copy_from_slice(&0xffff_fff0u32.to_le_bytes()); } } } } "kdf-dictionary" }
            6 => { // inner header: truncate / retag / relength (authenticates correctly)
                let ih = parts.payload.len() - s.xml.len(); let i = rng.below(ih as u64) as usize;
                match rng.below(4) { 0 => { parts.payload.truncate(i); } 1 => { parts.payload[i] = rng.next() as u8; } 2 => { if i + 4 <= ih { parts.payload[i..i + 4].copy_from_slice(&0xffff_ffffu32.to_le_bytes()); } } _ => { parts.payload.drain(i..ih.min(i + 5)); } } "inner-header" }
            7 => { let ih = parts.payload.len() - s.xml.len(); let k = ih + rng.below(s.xml.len() as u64 + 1) as usize; parts.payload.truncate(k); "truncated-xml" }
            8 => { // ill-typed element text: time stamps, numbers, booleans, uuids, colours
                let xml = String::from_utf8_lossy(&s.xml).to_string();
                let repl: &[(&str, &str)] = &[("<Expires>False</Expires>", "<Expires>maybe</Expires>"), ("<Expires>True</Expires>", "<Expires></Expires>"), ("<UsageCount>", "<UsageCount>-"), ("<IsExpanded>", "<IsExpanded>x"), ("</UUID>", "AA==</UUID>"), ("<LastModificationTime>", "<LastModificationTime>AAAA</LastModificationTime><LastModificationTime>"), ("<CreationTime>", "<CreationTime>//////////8=</CreationTime><CreationTime>"), ("<LocationChanged>", "<LocationChanged>/////////38=</LocationChanged><LocationChanged>"), ("<IconID>", "<IconID>99999999999999999999999"), ("<Value Protected=\"True\">", "<Value Protected=\"True\">!!!!"), ("<ForegroundColor>", "<ForegroundColor>#"), ("<Tags>", "<Tags><b/>")];
                let (a, b) = rng.pick(repl);
                let x2 = xml.replacen(a, b, 1);
                let ih = parts.payload.len() - s.xml.len(); parts.payload.truncate(ih); parts.payload.extend_from_slice(x2.as_bytes()); "ill-typed-element-text" }
            9 => { parts.partition = vec![]; parts.terminator = false; "no-terminator" }
            15 | 16 => { // the text of a randomly chosen leaf element replaced by text of a chosen BYTE length that
                // contains a multi-byte character (parsers that slice by byte offsets), optionally with the
                // lead character of the value's own syntax
                let xml = s.xml.clone();
                let mut spans: Vec<(usize, usize)> = Vec::new();
                let mut i = 0;
                while i < xml.len() {
                    if xml[i] == b'>' {
                        if let Some(j) = xml[i + 1..].iter().position(|&c| c == b'<') {
                            let (st, en) = (i + 1, i + 1 + j);
                            if en > st && en + 1 < xml.len() && xml[en + 1] == b'/' { spans.push((st, en)); }
                            i = en;
                            continue;
                        }
                    }
                    i += 1;
                }
                if !spans.is_empty() {
                    let (st, en) = spans[rng.below(spans.len() as u64) as usize];
                    let target = rng.range(1, 12) as usize;
                    let wide = *rng.pick(&["\u{e9}", "\u{20ac}", "\u{1F511}", "\u{661}", "\u{ff11}", "\u{2212}"]);
                    let lead = *rng.pick(&["", "#", "-", "+", " "]);
                    let mut t = String::from(lead);
                    let at = rng.below(target as u64 + 1) as usize;
                    let mut placed = false;
                    while t.len() < target {
                        if !placed && t.len() >= at && t.len() + wide.len() <= target { t.push_str(wide); placed = true; }
                        else if t.len() + 1 <= target { t.push(*rng.pick(&['0', '1', 'a', 'F', '9'])); }
                    }
                    if !placed { t.push_str(wide); }
                    let mut x2 = xml[..st].to_vec();
                    x2.extend_from_slice(t.as_bytes());
                    x2.extend_from_slice(&xml[en..]);
                    let ih = parts.payload.len() - s.xml.len(); parts.payload.truncate(ih); parts.payload.extend_from_slice(&x2);
                }
                "leaf-text-multibyte" }
            10 => { parts.minor = rng.next() as u16; "minor-version" }
            11 => { parts.compression = 1 - parts.compression; if let Some(f) = parts.fields.iter_mut().find(|f| f.0 == 3) { f.1 = parts.compression.to_le_bytes().to_vec(); } "compression-flag-flipped" }
            12 => { let ih = parts.payload.len() - s.xml.len(); let depth = rng.range(50, 400) as usize; let mut x = String::from("<?xml version=\"1.0\"?><KeePassFile><Root>"); for _ in 0..depth { x.push_str("<Group><Name>n</Name>"); } for _ in 0..depth { x.push_str("</Group>"); } x.push_str("</Root></KeePassFile>"); parts.payload.truncate(ih); parts.payload.extend_from_slice(x.as_bytes()); "deep-groups" }
            _ => { parts.end_field = rng.bytes(7); "end-field-content" }
        };
        let file = parts.build();
        o.input = format!("(structure {} -> {} bytes)", kind, file.len());
        if kdf_cost(&file).map(|c| c > KDF_BUDGET).unwrap_or(false) { o.tags.push("skipped:kdf-cost".into()); return o; }
        o.tags.push(format!("structure:{}", kind));
        let impl_x = match catch(|| Database::get_xml(&mut &file[..], base.creds.key())) { Ok(r) => xml_class(&r), Err(p) => { o.violation = Some(format!("get_xml panicked ({}): {}", kind, p)); o.violation_class = Some(panic_class(&p)); "panic".into() } };
        match catch(|| Database::open(&mut &file[..], base.creds.key()).map(|_| ())) {
            Err(p) => { o.violation = Some(format!("open panicked on an authenticated malformed file ({}): {}", kind, p)); o.violation_class = Some(panic_class(&p)); }
            Ok(r) => { o.tags.push(format!("open:{}", match r { Ok(()) => "ok".to_string(), Err(e) => open_error_class(&e) })); }
        }
        let dec = model.eval_with(&format!("(decrypt4 {} {})", hexatom(&file), elements_term(&els)), &oracle::serve);
        if model_xml_class(&dec) != impl_x && impl_x != "panic" {
            o.disagreement = Some((format!("{} {}", kind, impl_x.chars().take(160).collect::<String>()), dec.chars().take(200).collect()));
        }
        o.nontrivial = true;
        o
    });
    crate::legacy::c06_streams(agg, args);
    // every kind of leaf element once per file: its text replaced by text of the SAME byte length that keeps
    // the first character and contains a multi-byte character (value parsers that slice by byte offset)
    run_cases(agg, args, "leaf-text", args.n(40, 400), |_i, rng, _model| {
        let mut o = CaseOutcome::default();
        let Some(base) = make_base(rng, false) else { o.violation = Some("save failed".into()); return o; };
        let els = base.creds.elements();
        let Ok(s) = strict::read(&base.bytes, &els) else { return o; };
        let xml = &s.xml;
        // (element name, text span) of every leaf element with text
        let mut by_name: std::collections::BTreeMap<Vec<u8>, Vec<(usize, usize)>> = Default::default();
        let mut i = 0;
        while i < xml.len() {
            if xml[i] == b'>' {
                if let Some(j) = xml[i + 1..].iter().position(|&c| c == b'<') {
                    let (st, en) = (i + 1, i + 1 + j);
                    if en > st && en + 2 < xml.len() && xml[en + 1] == b'/' {
                        let ne = xml[en + 2..].iter().position(|&c| c == b'>').map(|k| en + 2 + k).unwrap_or(xml.len());
                        by_name.entry(xml[en + 2..ne].to_vec()).or_default().push((st, en));
                    }
                    i = en;
                    continue;
                }
            }
            i += 1;
        }
        o.input = format!("(leaf-text {} element kinds, document {} bytes)", by_name.len(), xml.len());
        let mut tried = 0;
        for (name, spans) in by_name.iter() {
            let (st, en) = spans[rng.below(spans.len() as u64) as usize];
            let orig = &xml[st..en];
            let wide = *rng.pick(&["\u{e9}", "\u{20ac}", "\u{1F511}", "\u{661}", "\u{ff11}"]);
            let target = if orig.len() >= 3 && rng.chance(3, 4) { orig.len() } else { rng.range(2, 9) as usize };
            let mut t = String::new();
            if orig[0].is_ascii_punctuation() || rng.chance(1, 2) { t.push(orig[0] as char); }
            let at = rng.below(target as u64) as usize;
            let mut placed = false;
            while t.len() < target {
                if !placed && t.len() >= at && t.len() + wide.len() <= target { t.push_str(wide); placed = true; }
                else { t.push(*rng.pick(&['0', '1', 'a', 'F', '9'])); }
            }
            if !placed { continue; }
            let mut x2 = xml[..st].to_vec();
            x2.extend_from_slice(t.as_bytes());
            x2.extend_from_slice(&xml[en..]);
            let mut parts = Parts::of(&base.bytes, &s, &els);
            let ih = parts.payload.len() - s.xml.len();
            parts.payload.truncate(ih);
            parts.payload.extend_from_slice(&x2);
            let file = parts.build();
            tried += 1;
            match catch(|| Database::open(&mut &file[..], base.creds.key()).map(|_| ())) {
                Err(p) => {
                    o.violation = Some(format!("open panicked on an authenticated file whose <{}> text is {:?}: {}", String::from_utf8_lossy(name), t, p));
                    o.violation_class = Some(panic_class(&p));
                    o.input = format!("(leaf-text element {} text {:?})", String::from_utf8_lossy(name), t);
                }
                Ok(r) => { o.tags.push(format!("leaf:{}", match r { Ok(()) => "ok".to_string(), Err(e) => open_error_class(&e) })); }
            }
        }
        o.nontrivial = tried > 10;
        o
    });
    // key files: structure-aware variation of XML key files (attributes, versions, payloads, nesting)
    run_cases(agg, args, "keyfile-structure", args.n(1_500, 15_000), |_i, rng, model| {
        let mut o = CaseOutcome::default();
        let hexd = |rng: &mut Rng, n: usize| -> String { let b = rng.bytes(n); if rng.chance(1, 2) { hex_upper(&b) } else { hex::encode(&b) } };
        let version = rng.pick(&["2.0", "2.0", "1.00", "1.0", "2", "3.0", "", "2.0.1", " 2.0 "]).to_string();
        let payload_len = *rng.pick(&[32usize, 32, 0, 1, 16, 31, 33, 64]);
        let payload = match rng.below(5) {
            0 | 1 => hexd(rng, payload_len),
            2 => base64::Engine::encode(&base64::engine::general_purpose::STANDARD, &rng.bytes(payload_len)),
            3 => { let mut h = hexd(rng, payload_len); h.push_str(*rng.pick(&["g", " ", "\n", "0", "zz"])); h }
            _ => rng.pick(&["", " ", "not hex at all", "&#65;&#66;", "<![CDATA[41]]>"]).to_string(),
        };
        let hash_attr = match rng.below(8) {
            0 => String::new(),
            1 => format!(" Hash=\"{}\"", hexd(rng, 4)),
            2 => format!(" Hash=\"{}\"", hexd(rng, 32)),
            3 => { let n = *rng.pick(&[33usize, 40, 64, 100, 1000]); format!(" Hash=\"{}\"", hexd(rng, n)) }
            4 => format!(" Hash=\"{}\"", rng.pick(&["", "0", "abc", "xyz", "12 34", "\u{e9}"])),
            5 => format!(" Hash=\"{}\" Hash2=\"{}\"", hexd(rng, 4), hexd(rng, 40)),
            6 => format!(" hash=\"{}\"", hexd(rng, 50)),
            _ => format!(" Hash='{}'", hexd(rng, 5)),
        };
        let meta = if rng.chance(5, 6) { format!("<Meta><Version>{}</Version></Meta>", version) } else { String::new() };
        let data = format!("<Data{}>{}</Data>", hash_attr, payload);
        let key = match rng.below(6) { 0 => format!("<Key>{}{}</Key>", data, data), 1 => format!("<Key><Wrap>{}</Wrap></Key>", data), 2 => "<Key/>".to_string(), 3 => format!("<Key>{}", data), _ => format!("<Key>{}</Key>", data) };
        let doc = match rng.below(6) { 0 => format!("<KeyFile>{}{}</KeyFile>", key, meta), 1 => format!("<keyfile>{}{}</keyfile>", meta, key), 2 => format!("<?xml version=\"1.0\" encoding=\"utf-8\"?>\n<KeyFile>\n{}\n{}\n</KeyFile>", meta, key), _ => format!("<KeyFile>{}{}</KeyFile>", meta, key) };
        let kf = doc.into_bytes();
        o.input = format!("(keyfile {})", String::from_utf8_lossy(&kf).chars().take(300).collect::<String>());
        o.tags.push(format!("version:{:?}", version));
        o.tags.push(format!("hash-attr:{}", match hash_attr.len() { 0 => "none", 1..=20 => "short", 21..=80 => "digest-sized", _ => "long" }));
        // the key file is evaluated when the key is used: derive the elements through a real open
        let (b, _) = &fixture_files[4];   // a small KDBX4 file; its own credentials do not matter here
        let r = catch(|| { let mut rd: &[u8] = &kf; let k = DatabaseKey::new().with_password("x").with_keyfile(&mut rd); k.map(|k| Database::open(&mut &b[..], k).map(|_| ())) });
        match &r {
            Err(p) => { o.violation = Some(format!("using an XML key file panicked: {}", p)); o.violation_class = Some(panic_class(p)); }
            Ok(_) => {}
        }
        // correspondence with the key model: the elements the model derives open exactly when the library's do
        let m = model.eval_with(&format!("(key-elements (some {}) (some ({} {})))", hexatom(b"x"), hexatom(&kf), keyfile_events(&kf)), &oracle::serve);
        if let Some(rest) = m.strip_prefix("ok ") {
            // the model's elements, used through the framing model, must give the same verdict as the library
            let els_term = format!("(ok {})", rest);
            let dec = model.eval_with(&format!("(decrypt4 {} {})", hexatom(b), els_term), &oracle::serve);
            let impl_s = match &r { Ok(Ok(Ok(()))) => "ok".to_string(), Ok(Ok(Err(e))) => format!("err {}", open_error_class(e)), Ok(Err(_)) => "io".to_string(), Err(_) => "panic".to_string() };
            let m_s = if dec.starts_with("ok ") { "ok".to_string() } else { dec.clone() };
            if m_s != impl_s && impl_s != "panic" { o.disagreement = Some((impl_s, m_s.chars().take(100).collect())); }
        }
        o.nontrivial = true;
        o
    });
    // nesting depth: authenticated files whose XML nests an element thousands of levels deep.  Each case
    // runs in a child process (an exhausted stack aborts the process, it cannot be caught), with a
    // watchdog; the child opens the file on a thread with an 8 MiB stack, the default of a main thread.
    run_cases(agg, args, "deep-nesting", args.n(24, 120), |i, rng, _model| {
        let mut o = CaseOutcome::default();
        let Some(base) = make_base(rng, false) else { o.violation = Some("save failed".into()); return o; };
        let els = base.creds.elements();
        let Ok(s) = strict::read(&base.bytes, &els) else { return o; };
        const KINDS: &[&str] = &["unknown-in-meta", "unknown-in-root", "unknown-in-group", "unknown-in-entry", "unknown-in-history-entry", "unknown-in-customdata", "groups", "entry-history"];
        let kind = KINDS[(i % KINDS.len() as u64) as usize];
        let recursive_model = kind == "groups" || kind == "entry-history";
        let depth: usize = if recursive_model { *rng.pick(&[100usize, 300, 100_000]) } else { *rng.pick(&[2_000usize, 6_000, 20_000, 60_000]) };
        let nest = |open: &str, close: &str, inner: &str| -> String { let mut x = String::with_capacity((open.len() + close.len()) * depth + inner.len()); for _ in 0..depth { x.push_str(open); } x.push_str(inner); for _ in 0..depth { x.push_str(close); } x };
        let uuid = "<UUID>AAAAAAAAAAAAAAAAAAAAAA==</UUID>";
        let body = match kind {
            "unknown-in-meta" => format!("<Meta><Generator>g</Generator>{}</Meta><Root><Group>{}<Name>n</Name></Group></Root>", nest("<Plugin>", "</Plugin>", "x"), uuid),
            "unknown-in-root" => format!("<Meta></Meta><Root>{}<Group>{}<Name>n</Name></Group></Root>", nest("<X a=\"1\">", "</X>", ""), uuid),
            "unknown-in-group" => format!("<Meta></Meta><Root><Group>{}<Name>n</Name>{}</Group></Root>", uuid, nest("<Extension>", "</Extension>", "<Leaf/>")),
            "unknown-in-entry" => format!("<Meta></Meta><Root><Group>{}<Name>n</Name><Entry>{}{}</Entry></Group></Root>", uuid, uuid, nest("<Foo>", "</Foo>", "t")),
            "unknown-in-history-entry" => format!("<Meta></Meta><Root><Group>{}<Name>n</Name><Entry>{}<History><Entry>{}{}</Entry></History></Entry></Group></Root>", uuid, uuid, uuid, nest("<Foo>", "</Foo>", "t")),
            "unknown-in-customdata" => format!("<Meta><CustomData><Item><Key>k</Key><Value>v</Value>{}</Item></CustomData></Meta><Root><Group>{}<Name>n</Name></Group></Root>", nest("<Y>", "</Y>", ""), uuid),
            "groups" => format!("<Meta></Meta><Root>{}</Root>", nest("<Group><Name>n</Name>", "</Group>", "")),
            _ => format!("<Meta></Meta><Root><Group>{}<Name>n</Name>{}</Group></Root>", uuid, nest("<Entry><History>", "</History></Entry>", "")),
        };
        let x = format!("<?xml version=\"1.0\" encoding=\"utf-8\"?><KeePassFile>{}</KeePassFile>", body);
        let mut parts = Parts::of(&base.bytes, &s, &els);
        let ih = parts.payload.len() - s.xml.len();
        parts.payload.truncate(ih);
        parts.payload.extend_from_slice(x.as_bytes());
        let file = parts.build();
        o.input = format!("(deep-nesting {} depth {} creds {})", kind, depth, base.creds.kind);
        o.tags.push(format!("deep:{}:{}", kind, depth));
        let dir = "/verif/.cache/deep";
        let _ = std::fs::create_dir_all(dir);
        let stem = format!("{}/{}_{}_{}", dir, std::process::id(), args.seed, i);
        let (fpath, kpath) = (format!("{}.kdbx", stem), format!("{}.key", stem));
        std::fs::write(&fpath, &file).expect("write case file");
        if let Some(k) = &base.creds.keyfile { std::fs::write(&kpath, k).expect("write key file"); }
        let pw_arg = match &base.creds.password { Some(p) => format!("x{}", hex::encode(p.as_bytes())), None => "none".into() };
        let kf_arg = if base.creds.keyfile.is_some() { kpath.clone() } else { "none".into() };
        let exe = std::env::current_exe().expect("own path");
        let mut child = std::process::Command::new(exe).args(["deep-child", &fpath, &pw_arg, &kf_arg]).stdout(std::process::Stdio::null()).stderr(std::process::Stdio::piped()).spawn().expect("spawn child");
        let started = std::time::Instant::now();
        let status = loop {
            match child.try_wait() { Ok(Some(st)) => break Some(st), Ok(None) => {} Err(_) => break None }
            if started.elapsed().as_secs() > 300 { let _ = child.kill(); let _ = child.wait(); break None; }
            std::thread::sleep(std::time::Duration::from_millis(20));
        };
        let mut err = String::new();
        if let Some(mut e) = child.stderr.take() { use std::io::Read; let _ = e.read_to_string(&mut err); }
        let _ = std::fs::remove_file(&fpath);
        let _ = std::fs::remove_file(&kpath);
        let shallow = recursive_model && depth <= 400;
        match status {
            None => { o.violation = Some(format!("reading did not finish within 300 s ({} depth {})", kind, depth)); o.violation_class = Some(format!("hang:{}", kind)); }
            Some(st) if st.code() == Some(0) => { o.tags.push("child:returned".into()); }
            Some(st) if st.code() == Some(3) => { o.violation = Some(format!("reading panicked ({} depth {}): {}", kind, depth, err.chars().take(200).collect::<String>())); o.violation_class = Some(panic_class(&err)); }
            Some(st) => {
                // killed by a signal / aborted: the stack was exhausted
                o.violation = Some(format!("reading aborted the process ({} depth {}; status {:?}): {}", kind, depth, st, err.lines().last().unwrap_or("").chars().take(160).collect::<String>()));
                o.violation_class = Some(if recursive_model && !shallow { "deep-object-nesting".into() } else { format!("abort:{}", kind) });
            }
        }
        o.nontrivial = true;
        o
    });
    write_report(args, agg, "streams: corpus-damage (every repository sample file of all three formats: every kind of prefix, random byte damage, extreme 32-bit length words in the first 300 bytes, random bytes, prefix plus noise; open, get_xml, get_version and open with arbitrary key-file bytes, each under catch_unwind) and kdbx4-structure (saved files rebuilt WITH the key by an independent builder after a structure-aware mutation: missing/duplicate/unknown/short/long header fields, damaged KDF dictionary, damaged inner header, numeric KDF parameters at boundary values (0, 1, 7/8, 1023/1024, versions, 2^32-1), truncated XML, ill-typed element text incl. short and over-range base64 time stamps, no terminator block, flipped compression flag, deep group nesting, end-field content; result class compared with the model's decrypt4), kdb-structure (generated KDB content laid out by the independent KDB writer, damaged at record level - extreme and off-by-one size words, unknown types, truncation, wrong group/entry counts, removed/duplicated/swapped records, wrong widths of fixed-width fields, level jumps - and then authenticated: content hash and encryption redone; result compared with the extracted KDB reader) and kdbx3-structure (independent KDBX 3.1 writer: truncated/ill-typed XML, extreme block size words, missing final block, empty stream, payload cut inside a block header or the stream start bytes, wrong block hash; result class compared with the extracted KDBX 3.1 reader), leaf-text (for every kind of leaf element of a saved document, once per file: its text replaced by text of the same byte length that keeps the first character and contains a multi-byte character; the file re-authenticated and opened) and keyfile-structure (XML key files with varied versions, Hash attributes of every length and shape, hex/base64/other payloads, duplicated, nested, missing and unterminated elements; used through with_keyfile + open; verdict compared with the key model fed the xml-rs events) and deep-nesting (authenticated files whose XML nests an unknown element 2 000..60 000 levels deep under Meta, Root, Group, Entry, a history entry or a custom-data item, or nests Group elements / Entry-History pairs 100, 300 and 100 000 levels deep; each is opened and its XML extracted in a child process on an 8 MiB stack with a 300 s watchdog, and the exit status is the observation - the stack does not exist in the model); every case is non-trivial", serde_json::json!({}));
}

/// class of a panic message, for matching the known findings by site
pub fn panic_class(msg: &str) -> String {
    if msg.contains("overflow") && (msg.contains("NaiveDateTime") || msg.contains("TimeDelta") || msg.contains("Duration")) { "timestamp-overflow".into() }
    else if msg.contains("out of range for slice") || msg.contains("index out of bounds") || msg.contains("range end index") || msg.contains("range start index") { "unchecked-index".into() }
    else { format!("panic:{}", msg.chars().take(40).collect::<String>()) }
}

// ---------------- C20: composite key in every documented encoding ----------------
fn c20(args: &Args, agg: &mut Aggregate) {
    run_cases(agg, args, "credentials", args.n(300, 10_000), |_i, rng, model| {
        let mut o = CaseOutcome::default();
        let Some(base) = make_base(rng, true) else { o.violation = Some("save failed".into()); return o; };
        let els = base.creds.elements();
        o.input = format!("(creds {} password {:?} keyfile {} bytes)", base.creds.kind, base.creds.password, base.creds.keyfile.as_ref().map(|k| k.len()).unwrap_or(0));
        o.tags.push(format!("creds:{}", base.creds.kind));
        o.tags.push(format!("password:{}", match &base.creds.password { None => "absent", Some(p) if p.is_empty() => "empty", Some(p) if !p.is_ascii() => "non-ascii", Some(p) if p.contains('\0') => "nul", _ => "ascii" }));
        // (1) the key the crate saved under is the documented composite: the strict reader, keyed by the
        //     independent derivation, verifies the header HMAC and decrypts
        if let Err(w) = strict::read(&base.bytes, &els) {
            o.violation = Some(format!("the file is not keyed by SHA-256(SHA-256(password) || key-file key): {}", w));
            return o;
        }
        // (2) the same credentials open it; the same key file laid out differently / delivered in chunks derives the same key
        if Database::open(&mut &base.bytes[..], base.creds.key()).is_err() { o.violation = Some("the same credentials do not open the file".into()); }
        if let Some(kf) = &base.creds.keyfile {
            if base.creds.kind.starts_with("xml-v") {
                let text = String::from_utf8_lossy(kf).to_string();
                let relaid = text.replace("><", ">\n\t <!-- c -->\r\n<");
                let k2 = make_key(base.creds.password.as_deref(), Some(relaid.as_bytes()));
                if Database::open(&mut &base.bytes[..], k2).is_err() { o.violation = Some(format!("a {} key file laid out differently between its elements derives a different key", base.creds.kind)); }
                // the same XML document in other byte forms: UTF-8 byte order mark, leading blank lines,
                // a comment or a processing instruction before the root, another declaration
                let body = if let Some(p) = text.find("?>") { text[p + 2..].to_string() } else { text.clone() };
                let forms: Vec<(&str, Vec<u8>)> = vec![
                    ("byte-order-mark", [&[0xEFu8, 0xBB, 0xBF][..], text.as_bytes()].concat()),
                    ("leading-white-space", format!("\r\n \t{}", body).into_bytes()),
                    ("comment-before-root", format!("<?xml version=\"1.0\"?><!-- key file -->{}", body).into_bytes()),
                    ("no-declaration", body.clone().into_bytes()),
                    ("standalone-declaration", format!("<?xml version=\"1.0\" encoding=\"UTF-8\" standalone=\"yes\"?>{}", body).into_bytes()),
                ];
                let (fname, fbytes) = &forms[rng.below(forms.len() as u64) as usize];
                o.tags.push(format!("keyfile-form:{}", fname));
                let k4 = make_key(base.creds.password.as_deref(), Some(fbytes));
                if Database::open(&mut &base.bytes[..], k4).is_err() { o.violation = Some(format!("a {} key file written as the same XML document in another byte form ({}) derives a different key", base.creds.kind, fname)); }
            }
            let sched = crate::io_script::Schedule { script: crate::io_script::gen_script(rng, kf.len()), fail: None };
            let mut rd = crate::io_script::ScriptedReader::new(kf, &sched);
            let mut k3 = DatabaseKey::new();
            if let Some(p) = &base.creds.password { k3 = k3.with_password(p); }
            match k3.with_keyfile(&mut rd) { Ok(k3) => { if Database::open(&mut &base.bytes[..], k3).is_err() { o.violation = Some("a key file delivered in short reads derives a different key".into()); } } Err(_) => o.violation = Some("with_keyfile failed on a scripted reader".into()) }
        }
        // (3) password-only differs from password + key file
        if base.creds.password.is_some() && base.creds.keyfile.is_some() {
            let only_pw = make_key(base.creds.password.as_deref(), None);
            if Database::open(&mut &base.bytes[..], only_pw).is_ok() { o.violation = Some("a password-only key opens a database keyed by password + key file".into()); }
        }
        // (4) a foreign (independently built) file under these credentials opens
        let s = strict::read(&base.bytes, &els).unwrap();
        let mut parts = Parts::of(&base.bytes, &s, &els);
        parts.relayout(rng);
        let foreign = parts.build();
        match Database::open(&mut &foreign[..], base.creds.key()) { Ok(d) if d == base.db => {} _ => o.violation = Some("a file written by an independent writer under the same credentials does not open to the same content".into()) }
        // correspondence: the key model (format/Key.v), fed the events xml-rs delivers for the key file,
        // derives the same elements as the independent derivation; and the framing model decrypts the file with them
        let kf_term = match &base.creds.keyfile { None => "none".to_string(), Some(kf) => format!("(some ({} {}))", hexatom(kf), keyfile_events(kf)) };
        let pw_term = match &base.creds.password { None => "none".to_string(), Some(p) => format!("(some {})", hexatom(p.as_bytes())) };
        let model_els = model.eval_with(&format!("(key-elements {} {})", pw_term, kf_term), &oracle::serve);
        let want_els = format!("ok {}", slist(els.iter().map(|e| hexatom(e))));
        if model_els != want_els { o.disagreement = Some((want_els, model_els)); }
        let dec = model.eval_with(&format!("(decrypt4 {} {})", hexatom(&base.bytes), elements_term(&els)), &oracle::serve);
        if !dec.starts_with("ok ") && o.disagreement.is_none() { o.disagreement = Some(("ok".into(), dec.chars().take(100).collect())); }
        o.nontrivial = base.creds.keyfile.is_some();
        o
    });
    // KeePass 1: a lone key element is used as it is (it must be 32 bytes); several are hashed together
    run_cases(agg, args, "kdb-credentials", args.n(200, 4_000), |_i, rng, _model| {
        let mut o = CaseOutcome::default();
        let c = crate::legacy::gen_kdb_content(rng, false);
        let payload = crate::legacy::kdb_payload(rng, &c);
        let meta = crate::legacy::KdbFile { twofish: rng.chance(1, 2), rounds: *rng.pick(&[0u32, 1, 3]), subversion: 0x00030004 };
        let creds = gen_creds(rng);
        let els = creds.elements();
        o.input = format!("(kdb creds {} password {:?} elements {:?})", creds.kind, creds.password, els.iter().map(|e| e.len()).collect::<Vec<_>>());
        o.tags.push(format!("creds:{}", creds.kind));
        o.nontrivial = true;
        if els.is_empty() { return o; }
        if els.len() == 1 && els[0].len() != 32 {
            // not a KeePass 1 key.  Whatever composite a reader might make up from it (here: its SHA-256, what
            // the KDBX rule would give), it must not open a file keyed that way
            o.tags.push("lone-element:not-32-bytes".into());
            let fake = vec![oracle::sha256(&els[0])];
            let file = crate::legacy::kdb_file(rng, &meta, c.groups.len() as u32, c.entries.len() as u32, &payload, &fake);
            match catch(|| Database::open(&mut &file[..], creds.key())) {
                Err(p) => o.violation = Some(format!("open panicked: {}", p)),
                Ok(Ok(_)) => o.violation = Some("KDB: a lone key element that is not 32 bytes long was hashed into a key (a lone element is used as it is)".into()),
                Ok(Err(e)) => o.tags.push(format!("error:{}", open_error_class(&e))),
            }
            return o;
        }
        o.tags.push(format!("elements:{}", els.len()));
        let file = crate::legacy::kdb_file(rng, &meta, c.groups.len() as u32, c.entries.len() as u32, &payload, &els);
        match catch(|| Database::open(&mut &file[..], creds.key())) {
            Err(p) => o.violation = Some(format!("open panicked: {}", p)),
            Ok(Err(e)) => o.violation = Some(format!("a KDB file keyed by the KeePass 1 composite of these credentials does not open: {}", open_error_class(&e))),
            Ok(Ok(_)) => {}
        }
        if els.len() == 1 {
            // the same element hashed once more is a different key
            let rehashed = vec![oracle::sha256(&els[0])];
            let f2 = crate::legacy::kdb_file(rng, &meta, c.groups.len() as u32, c.entries.len() as u32, &payload, &rehashed);
            if let Ok(Ok(_)) = catch(|| Database::open(&mut &f2[..], creds.key())) { o.violation = Some("KDB: a lone 32-byte element was hashed again".into()); }
        }
        o
    });
    // fixtures of all formats under their documented credentials (independent key-file derivation for KDBX4)
    run_cases(agg, args, "fixtures", FIXTURES.len() as u64, |i, _rng, _model| {
        let mut o = CaseOutcome::default();
        let f = &FIXTURES[i as usize];
        let b = f.bytes();
        o.input = format!("(fixture {})", f.file);
        if f.file.starts_with("broken") { return o; }
        if Database::parse(&b, f.key()).is_err() { o.violation = Some("a sample file does not open under its credentials".into()); }
        if b.len() > 12 && b[4..8] == [0x67, 0xfb, 0x4b, 0xb5] && b[10] == 4 {
            let kfk = f.keyfile_bytes().map(|k| independent_keyfile_key(&k));
            if let Err(w) = strict::read(&b, &key_elements(f.password, kfk.as_deref())) {
                // files written by other implementations may use features the strict reader does not know; only a key failure matters here
                if w.contains("hmac") { o.violation = Some(format!("sample file is not keyed by the documented composite key: {}", w)); }
            }
        }
        o.nontrivial = f.keyfile.is_some();
        o
    });
    write_report(args, agg, "streams: credentials (passwords absent/empty/ASCII/non-ASCII/with NUL x key files absent / 32 raw bytes / 0..200 arbitrary bytes / XML v1 with 32-byte and other payloads / XML v2 with spaces, CR/LF, TABs and either hex case / XML without key data / XML-like garbage; the saved file must verify under the independently derived composite key, open with the same credentials however the key file is laid out or delivered, not open with the password alone, and a file built by an independent writer under the same credentials must open), kdb-credentials (KeePass 1 files built by the independent writer: a lone 32-byte element is used as it is, several elements are hashed together, a lone element of another length is not a key) and fixtures; non-trivial = a key file is involved", serde_json::json!({}));
}

/// child of the deep-nesting stream: `kpverif deep-child <file> <x-hex-password|none> <key-file|none>`.
/// Exit status 0 = open and get_xml returned a value or an error, 3 = one of them panicked; a stack
/// overflow aborts the process, which the parent sees as death by signal.
pub fn deep_child(argv: &[String]) {
    let file = std::fs::read(&argv[2]).expect("case file");
    let pw: Option<String> = if argv[3] == "none" { None } else { Some(String::from_utf8(hex::decode(&argv[3][1..]).unwrap()).unwrap()) };
    let kf: Option<Vec<u8>> = if argv[4] == "none" { None } else { Some(std::fs::read(&argv[4]).expect("key file")) };
    let t = std::thread::Builder::new().stack_size(8 << 20).spawn(move || {
        let r1 = catch(|| Database::open(&mut &file[..], make_key(pw.as_deref(), kf.as_deref())).map(|_| ()).is_ok());
        let r2 = catch(|| Database::get_xml(&mut &file[..], make_key(pw.as_deref(), kf.as_deref())).is_ok());
        match (r1, r2) { (Ok(_), Ok(_)) => 0, (Err(p), _) | (_, Err(p)) => { eprintln!("panic: {}", p); 3 } }
    }).expect("thread");
    std::process::exit(t.join().unwrap_or(3));
}

//! C19: one-time passwords.  Generated otpauth URIs (with decorations) are parsed and evaluated by
//! the crate and by the model (which receives the components the `url` crate returns); an
//! independent HOTP written from RFC 4226 on top of the `hmac` crate is a third opinion.

use crate::common::*;
use hmac::{Hmac, Mac};
use keepass::db::{TOTPAlgorithm, TOTP};

fn hotp_ref(alg: u8, key: &[u8], counter: u64, digits: u32) -> String {
    let msg = counter.to_be_bytes();
    let h: Vec<u8> = match alg {
        0 => { let mut m = Hmac::<sha1::Sha1>::new_from_slice(key).unwrap(); m.update(&msg); m.finalize().into_bytes().to_vec() }
        1 => { let mut m = Hmac::<sha2::Sha256>::new_from_slice(key).unwrap(); m.update(&msg); m.finalize().into_bytes().to_vec() }
        _ => { let mut m = Hmac::<sha2::Sha512>::new_from_slice(key).unwrap(); m.update(&msg); m.finalize().into_bytes().to_vec() }
    };
    // RFC 4226 5.3
    let offset = (h[h.len() - 1] & 0x0f) as usize;
    let p = u32::from_be_bytes([h[offset], h[offset + 1], h[offset + 2], h[offset + 3]]) & 0x7fff_ffff;
    let v = (p as u64) % 10u64.pow(digits);
    format!("{:0width$}", v, width = digits as usize)
}

fn pct(rng: &mut Rng, s: &str, always: &[char]) -> String {
    // percent-encode reserved characters, and randomly some others
    let mut out = String::new();
    for c in s.chars() {
        if always.contains(&c) || !c.is_ascii() || rng.chance(1, 12) {
            let mut buf = [0u8; 4];
            for b in c.encode_utf8(&mut buf).bytes() {
                out.push_str(&format!("%{:02X}", b));
            }
        } else {
            out.push(c);
        }
    }
    out
}

const ALG_NAMES: [&str; 3] = ["SHA1", "SHA256", "SHA512"];

struct Gen {
    uri: String,
    alg: u8,
    period: u64,
    digits: u32,
    secret: Vec<u8>,
    well_formed: bool,
}

fn gen_uri(rng: &mut Rng, malformed: bool) -> Gen {
    let nsec = match rng.below(6) { 0 => 0, 1 => rng.below(5), 2 => 20, 3 => 32, 4 => 64, _ => rng.below(65) } as usize;
    let secret = rng.bytes(nsec);
    let alg = rng.below(3) as u8;
    let period: u64 = match rng.below(8) { 0 => 1, 1 => 30, 2 => 60, 3 => 86400, 4 => rng.range(1, 86400), 5 => u32::MAX as u64 + 7, _ => rng.range(1, 120) };
    let digits: u32 = match rng.below(12) { 0 => 10 + rng.below(10) as u32, 1 => 0, _ => rng.range(1, 9) as u32 };
    let mut b32 = base32::encode(base32::Alphabet::Rfc4648 { padding: true }, &secret);
    if rng.chance(1, 5) {
        b32 = b32.trim_end_matches('=').to_string(); // authenticator apps usually drop the padding
    }
    let label = rng.pick(&["ACME Co:john.doe@email.com", "KeePassXC:none", "", "a/b", "\u{e9}t\u{e9}", "x y+z", "//lead"]).to_string();
    let issuer = rng.pick(&["ACME Co", "KeePassXC", "", "a&b=c", "100%"]).to_string();
    let mut well_formed = true;
    let mut scheme = "otpauth".to_string();
    let mut params: Vec<(String, String)> = Vec::new();
    let mut have_secret = true;
    params.push(("secret".into(), pct(rng, &b32, &['='])));
    if rng.chance(3, 4) { params.push(("period".into(), if rng.chance(1, 8) { format!("+{}", period) } else { period.to_string() })); }
    if rng.chance(3, 4) { params.push(("digits".into(), digits.to_string())); }
    if rng.chance(3, 4) { params.push(("algorithm".into(), ALG_NAMES[alg as usize].to_string())); }
    if rng.chance(1, 2) { params.push(("issuer".into(), pct(rng, &issuer, &['&', '=', '%', '+', '#', ' ']))); }
    if rng.chance(1, 3) { params.push((rng.pick(&["foo", "image", "Secret", "period2", ""]).to_string(), rng.pick(&["1", "x", "", "%41"]).to_string())); }
    if rng.chance(1, 6) {
        // a repeated parameter: the last occurrence wins
        let i = rng.below(params.len() as u64) as usize;
        let (k, v) = params[i].clone();
        let first = match k.as_str() { "period" => "45".to_string(), "digits" => "7".to_string(), "algorithm" => "SHA1".to_string(), "secret" => "MFRGG===".to_string(), _ => "zzz".to_string() };
        if k == "secret" {
            well_formed = false; // which secret wins depends on the shuffled order; the model decides
        }
        params.insert(0, (k, first));
        let _ = v;
    }
    // shuffle
    for i in (1..params.len()).rev() {
        let j = rng.below(i as u64 + 1) as usize;
        params.swap(i, j);
    }
    if malformed {
        well_formed = false;
        match rng.below(9) {
            0 => scheme = rng.pick(&["otpauthx", "http", "OTPAUTH2", "totp"]).to_string(),
            1 => { params.retain(|(k, _)| k != "secret"); have_secret = false; }
            2 => { for p in params.iter_mut() { if p.0 == "secret" { p.1 = rng.pick(&["mfrgg===", "MFRGG1==", "MFR GG", "M%C3%A9", "MFRGG!"]).to_string(); } } }
            3 => params.push(("period".into(), rng.pick(&["", "abc", "-5", "1.5", "18446744073709551616", " 30", "0x1e"]).to_string())),
            4 => params.push(("digits".into(), rng.pick(&["", "six", "-1", "4294967296", "6 "]).to_string())),
            5 => params.push(("algorithm".into(), rng.pick(&["sha1", "MD5", "", "SHA-256", "SHA384"]).to_string())),
            6 => params.push(("period".into(), rng.pick(&["0", "00", "+0"]).to_string())),
            7 => { return Gen { uri: rng.pick(&["", "otpauth", "://", "otpauth:/\\", "not a uri", "otpauth://[::1/x?secret=MFRGG==="]).to_string(), alg, period, digits, secret, well_formed: false }; }
            _ => params.push(("digits".into(), (20 + rng.below(30)).to_string())), // accepted by the parser; see KNOWN_FINDINGS F10
        }
    }
    let _ = have_secret;
    let q: Vec<String> = params.iter().map(|(k, v)| format!("{}={}", k, v)).collect();
    let typ = rng.pick(&["totp", "hotp", ""]);
    let uri = format!("{}://{}/{}?{}", scheme, typ, pct(rng, &label, &['?', '#', ' ', '%']), q.join("&"));
    Gen { uri, alg, period, digits, secret, well_formed }
}

pub fn run(args: &Args) {
    let mut agg = Aggregate::new();
    // the clock: value_now must be value_at(the current whole second), early and late within a second
    run_cases(&mut agg, args, "clock", args.n(6, 24), |i, rng, _model| {
        let mut o = CaseOutcome::default();
        let period = if i % 2 == 0 { 1u64 } else { 30 };
        let digits = if period == 1 { 9 } else { 6 };
        let secret = base32::encode(base32::Alphabet::Rfc4648 { padding: false }, &rng.bytes(20));
        let uri = format!("otpauth://totp/clock?secret={}&period={}&digits={}", secret, period, digits);
        o.input = format!("(clock period {} late-in-second {})", period, i % 4 >= 2);
        let Ok(t) = uri.parse::<TOTP>() else { o.violation = Some("well-formed URI rejected".into()); return o; };
        let late = i % 4 >= 2;
        for _try in 0..8 {
            // wait for the wanted part of a second
            loop {
                let ms = std::time::SystemTime::now().duration_since(std::time::UNIX_EPOCH).unwrap().subsec_millis();
                if (late && (600..900).contains(&ms)) || (!late && (50..350).contains(&ms)) { break; }
                std::thread::sleep(std::time::Duration::from_millis(5));
            }
            let before = std::time::SystemTime::now().duration_since(std::time::UNIX_EPOCH).unwrap().as_secs();
            let now = t.value_now();
            let after = std::time::SystemTime::now().duration_since(std::time::UNIX_EPOCH).unwrap().as_secs();
            if before != after { continue; }
            let Ok(now) = now else { o.violation = Some("value_now failed".into()); return o; };
            let at = t.value_at(before);
            o.nontrivial = true;
            o.tags.push(format!("clock:{}", if late { "late" } else { "early" }));
            if now.code != at.code || now.valid_for != at.valid_for {
                o.violation = Some(format!("value_now() at Unix time {} ({} in the second, period {}) gives {} valid {:?}; value_at({}) gives {} valid {:?}", before, if late { "late" } else { "early" }, period, now.code, now.valid_for, before, at.code, at.valid_for));
            }
            return o;
        }
        o
    });
    for (stream, malformed, n) in [("uris", false, args.n(2_000, 100_000)), ("malformed", true, args.n(1_000, 40_000))] {
        run_cases(&mut agg, args, stream, n, |_i, rng, model| {
            let g = gen_uri(rng, malformed);
            let mut o = CaseOutcome::default();
            // times: 0, period boundaries +-1, 2^31, 2^32, u64::MAX - period, random
            let p = g.period.max(1);
            let k = rng.below(1 << 20);
            let mut times: Vec<u64> = vec![0, 59, k * p, (k * p).saturating_sub(1), k * p + 1, 1u64 << 31, 1u64 << 32, u64::MAX - p, u64::MAX, rng.next()];
            times.truncate(rng.range(3, 10) as usize);
            // the components the url crate hands to keepass
            let input = match url::Url::parse(&g.uri) {
                Err(_) => "(c19-urlerr)".to_string(),
                Ok(u) => {
                    let pairs: Vec<String> = u.query_pairs().map(|(k, v)| format!("({} {})", hexatom(k.as_bytes()), hexatom(v.as_bytes()))).collect();
                    format!("(c19 {} {} ({}) ({}))", hexatom(u.scheme().as_bytes()), hexatom(u.path().as_bytes()), pairs.join(" "),
                        times.iter().map(|t| t.to_string()).collect::<Vec<_>>().join(" "))
                }
            };
            let parsed = std::panic::catch_unwind(|| g.uri.parse::<TOTP>());
            let impl_s = match &parsed {
                Err(_) => { o.violation = Some("parsing an otpauth URI panicked".into()); "panic".to_string() }
                Ok(Err(e)) => {
                    let d = format!("{:?}", e);
                    let kind = d.split(|c| c == '(' || c == ' ').next().unwrap_or("").to_string();
                    let kind = if kind == "MissingField" { "MissingSecret".to_string() } else { kind };
                    format!("err {}", kind)
                }
                Ok(Ok(t)) => {
                    let codes: Vec<String> = times.iter().map(|tm| {
                        let r = std::panic::catch_unwind(std::panic::AssertUnwindSafe(|| t.value_at(*tm)));
                        match r {
                            Ok(c) => {
                                // the property, on the implementation
                                if (1..=9).contains(&t.digits) {
                                    let alg = match t.algorithm { TOTPAlgorithm::Sha1 => 0, TOTPAlgorithm::Sha256 => 1, TOTPAlgorithm::Sha512 => 2 };
                                    let want = hotp_ref(alg, &base32::decode(base32::Alphabet::Rfc4648 { padding: true }, &t.get_secret()).unwrap(), tm / t.period, t.digits);
                                    if c.code != want {
                                        o.violation = Some(format!("code {} differs from the RFC 6238 value {} (independent HOTP)", c.code, want));
                                    }
                                    if c.code.len() != t.digits as usize {
                                        o.violation = Some("code is not zero-padded to the digit count".into());
                                    }
                                }
                                let v = c.valid_for.as_secs();
                                if v < 1 || v > t.period || c.period.as_secs() != t.period {
                                    o.violation = Some(format!("validity {} outside 1..{}", v, t.period));
                                }
                                format!("({} {} {})", hexatom(c.code.as_bytes()), v, c.period.as_secs())
                            }
                            Err(_) => {
                                o.violation = Some(format!("value_at panicked (period {}, digits {})", t.period, t.digits));
                                if t.digits >= 20 {
                                    o.violation_class = Some("digits-overflow".into());
                                }
                                "panic".to_string()
                            }
                        }
                    }).collect();
                    let alg = match t.algorithm { TOTPAlgorithm::Sha1 => "SHA1", TOTPAlgorithm::Sha256 => "SHA256", TOTPAlgorithm::Sha512 => "SHA512" };
                    if g.well_formed {
                        // parsing recovers what the generator put in
                        let canon = base32::encode(base32::Alphabet::Rfc4648 { padding: true }, &g.secret);
                        if t.get_secret() != canon {
                            o.violation = Some("re-encoded secret is not the canonical base32 text of the secret".into());
                        }
                    }
                    format!("ok {} {} {} {} {} {} ({})", hexatom(t.label.as_bytes()),
                        match &t.issuer { None => "none".to_string(), Some(i) => format!("(some {})", hexatom(i.as_bytes())) },
                        t.period, t.digits, alg, hexatom(t.get_secret().as_bytes()), codes.join(" "))
                }
            };
            // malformed by the property's own list, recomputed from the components the url crate returns
            let must_reject = match url::Url::parse(&g.uri) {
                Err(_) => true,
                Ok(u) => {
                    let pairs: Vec<(String, String)> = u.query_pairs().map(|(k, v)| (k.to_string(), v.to_string())).collect();
                    u.scheme() != "otpauth"
                        || !pairs.iter().any(|(k, _)| k == "secret")
                        || pairs.iter().any(|(k, v)| k == "period" && v.parse::<u64>().map(|x| x == 0).unwrap_or(true))
                        || pairs.iter().any(|(k, v)| k == "digits" && v.parse::<u32>().is_err())
                        || pairs.iter().any(|(k, v)| k == "algorithm" && !["SHA1", "SHA256", "SHA512"].contains(&v.as_str()))
                        || pairs.iter().filter(|(k, _)| k == "secret").last().map(|(_, v)| base32::decode(base32::Alphabet::Rfc4648 { padding: true }, v).is_none()).unwrap_or(false)
                }
            };
            if must_reject && impl_s.starts_with("ok ") {
                o.violation = Some(format!("malformed otpauth URI accepted: {}", g.uri));
            }
            let model_s = model.eval(&input);
            o.nontrivial = impl_s.starts_with("ok ") || malformed;
            o.tags.push(format!("result:{}", impl_s.split(' ').take(2).collect::<Vec<_>>().join(" ").chars().take(24).collect::<String>().split(" x").next().unwrap_or("").to_string()));
            o.tags.push(format!("digits:{}", match g.digits { 0 => "0", 1..=9 => "1-9", _ => ">=10" }));
            o.tags.push(format!("secret-len:{}", match g.secret.len() { 0 => "0", 1..=19 => "1-19", 20..=32 => "20-32", _ => "33-64" }));
            if impl_s != model_s {
                // label and issuer are fixed by the property (the path of the URI without its leading slashes, the
                // issuer parameter) and the model is proved to return them: a difference there is a failing input
                let head = |x: &str| x.split(' ').take(3).collect::<Vec<_>>().join(" ");
                if impl_s.starts_with("ok ") && model_s.starts_with("ok ") && head(&impl_s) != head(&model_s) && o.violation.is_none() {
                    o.violation = Some(format!("parsing does not recover label/issuer: got {} expected {}", head(&impl_s), head(&model_s)));
                }
                o.disagreement = Some((impl_s, model_s));
            }
            o.input = format!("{} ;uri {}", input, g.uri);
            o
        });
    }
    write_report(
        args,
        &agg,
        "stream clock: value_now() called early (50-350 ms) and late (600-900 ms) within a wall-clock second, periods 1 and 30, compared with value_at(that second); otpauth URIs generated from (secret 0..64 bytes, algorithm, period in {1,30,60,86400,random,>2^32}, digits 0..19 mostly 1..9, label/issuer with reserved and non-ASCII characters percent-encoded, parameter order shuffled, unknown and repeated parameters, padding dropped) x 3..10 times from {0, 59, period boundaries +-1, 2^31, 2^32, u64::MAX - period, u64::MAX, random}; malformed stream: wrong scheme, missing secret, bad base32, non-numeric/overflowing/zero period, bad digits, unknown algorithm, unparsable text, digits >= 20; non-trivial = parsed successfully (or any malformed case); distinct = distinct URI text",
        serde_json::json!({}),
    );
}

//! C11: save writes the complete file to any sink or reports failure.  The random source is
//! scripted (hook) so that every save of a case produces the same bytes; scripted `Write` sinks of
//! exactly the model's semantics receive the file under short-write schedules and failures.

use crate::common::*;
use crate::io_script::*;
use keepass::config::{CompressionConfig, DatabaseConfig, InnerCipherConfig, KdfConfig, OuterCipherConfig};
use keepass::db::{Entry, Group, Node, Value};
use keepass::error::DatabaseSaveError;
use keepass::{Database, DatabaseKey};

pub fn small_db(rng: &mut Rng) -> Database {
    let mut cfg = DatabaseConfig::default();
    cfg.kdf_config = KdfConfig::Aes { rounds: 1 };
    cfg.outer_cipher_config = match rng.below(3) { 0 => OuterCipherConfig::AES256, 1 => OuterCipherConfig::Twofish, _ => OuterCipherConfig::ChaCha20 };
    cfg.compression_config = if rng.chance(1, 2) { CompressionConfig::GZip } else { CompressionConfig::None };
    cfg.inner_cipher_config = match rng.below(3) { 0 => InnerCipherConfig::Plain, 1 => InnerCipherConfig::Salsa20, _ => InnerCipherConfig::ChaCha20 };
    let mut db = Database::new(cfg);
    let mut g = Group::new("G");
    for i in 0..rng.below(3) {
        let mut e = Entry::new();
        e.fields.insert("Title".into(), Value::Unprotected(format!("entry {}", i)));
        e.fields.insert("Password".into(), Value::Protected(format!("pw{}", rng.below(100)).as_bytes().into()));
        g.children.push(Node::Entry(e));
    }
    db.root.children.push(Node::Group(g));
    // sometimes an attachment in the inner header: small, or large and incompressible (a picture,
    // an archive) - the payload then does not shrink under gzip and crosses internal buffer sizes
    if rng.chance(1, 3) {
        let n = if rng.chance(3, 4) { rng.below(200) as usize } else { *rng.pick(&[40_000usize, 70_000, 100_000]) };
        db.header_attachments.push(keepass::db::HeaderAttachment { flags: 1, content: rng.bytes(n) });
    }
    db
}

pub fn draw_sizes(cfg: &DatabaseConfig) -> Vec<usize> {
    let iv = match cfg.outer_cipher_config { OuterCipherConfig::ChaCha20 => 12, _ => 16 };
    let ik = match cfg.inner_cipher_config { InnerCipherConfig::Plain => 1, _ => 32 };
    vec![32, iv, ik, 32]
}

/// outer header length: 12 bytes of version, then TLVs (1 byte type, 4 bytes LE length) until type 0
pub fn header_len(file: &[u8]) -> Option<usize> {
    let mut pos = 12;
    loop {
        if pos + 5 > file.len() {
            return None;
        }
        let t = file[pos];
        let l = u32::from_le_bytes([file[pos + 1], file[pos + 2], file[pos + 3], file[pos + 4]]) as usize;
        pos += 5 + l;
        if t == 0 {
            return Some(pos);
        }
    }
}

fn save_class(r: &Result<(), DatabaseSaveError>, recv: &[u8]) -> String {
    match r {
        Ok(()) => format!("ok {}", recv.len()),
        Err(DatabaseSaveError::Io(e)) => format!("err {}", kind_name(e.kind())),
        Err(e) => format!("other {:?}", e),
    }
}

pub fn run(args: &Args) {
    let mut agg = Aggregate::new();
    let per_case = args.n(24, 60);
    run_cases(&mut agg, args, "sinks", args.n(400, 6_000), |_i, rng, model| {
        let db = small_db(rng);
        let key = DatabaseKey::new().with_password("pw");
        let draws: Vec<Vec<u8>> = draw_sizes(&db.config).into_iter().map(|n| rng.bytes(n)).collect();
        let mut o = CaseOutcome::default();
        // reference bytes
        crate::hook::script(draws.clone());
        let mut full = Vec::new();
        let r0 = db.save(&mut full, key.clone());
        let requested = crate::hook::requested();
        crate::hook::unscript();
        if r0.is_err() {
            o.violation = Some(format!("save into a Vec failed: {:?}", r0));
            o.input = "save-failed".into();
            return o;
        }
        if requested != draw_sizes(&db.config) {
            o.violation = Some(format!("unexpected random draws {:?}", requested));
        }
        let hl = match header_len(&full) { Some(h) => h, None => { o.violation = Some("cannot delimit the outer header of the saved file".into()); 12 } };
        let pieces: Vec<&[u8]> = vec![&full[..hl], &full[hl..hl + 32], &full[hl + 32..hl + 64], &full[hl + 64..]];
        let pieces_s = slist(pieces.iter().map(|p| hexatom(p)));
        let len = full.len();
        let mut sample = String::new();
        // large files (an incompressible attachment): fewer schedules with caps of several KiB - the list
        // model is quadratic in the number of writes
        let big = len > 20_000;
        for j in 0..(if big { 6 } else { per_case }) {
            // schedules: short writes with and without a failure; failure offsets sweep the file
            let mut sched = Schedule { script: gen_script(rng, len), fail: None };
            if big {
                let cap = *rng.pick(&[4096usize, 7000, 16_384, 32_768, 65_536]);
                sched.script = (0..(len / cap + 3)).map(|_| crate::io_script::Act::Chunk(cap)).collect();
            }
            if j % 3 != 0 {
                let kinds = [std::io::ErrorKind::Other, std::io::ErrorKind::WriteZero, std::io::ErrorKind::BrokenPipe];
                let off = match rng.below(6) { 0 => 0, 1 => len - 1, 2 => len, 3 => len + 5, 4 => hl + rng.below(70) as usize, _ => rng.below(len as u64 + 1) as usize };
                sched.fail = Some((off, *rng.pick(&kinds)));
            }
            crate::hook::script(draws.clone());
            let mut w = ScriptedWriter::new(&sched);
            let r = db.save(&mut w, key.clone());
            crate::hook::unscript();
            let impl_s = save_class(&r, &w.recv);
            let input = format!("(c11 {} {} {})", pieces_s, sched.term_script(), sched.term_fail());
            let model_s = model.eval(&input);
            if j == 0 {
                sample = format!("(c11 <{} bytes in pieces {}/32/32/{}> {} {})", len, hl, len - hl - 64, sched.term_script(), sched.term_fail());
            }
            o.tags.push(format!("save:{}", impl_s.split(' ').next().unwrap_or("")));
            o.tags.push(format!("writes:{}", match w.calls { 0..=4 => "<=4", 5..=50 => "5-50", _ => ">50" }));
            if impl_s != model_s && o.disagreement.is_none() {
                o.disagreement = Some((impl_s.chars().take(200).collect(), model_s.chars().take(200).collect()));
            }
            // the property on the implementation alone
            match &r {
                Ok(()) => {
                    // the variant dictionary of the header is written in HashMap order, so two saves of
                    // the same database differ in bytes; completeness = same length as the reference,
                    // same bytes outside the outer header, and the file opens to the saved database
                    let complete = w.recv.len() == len
                        && w.recv[hl + 64..] == full[hl + 64..]
                        && matches!(Database::open(&mut &w.recv[..], key.clone()), Ok(ref d2) if *d2 == db);
                    if !complete {
                        o.violation = Some(format!("save returned Ok but the sink received {} of {} bytes or a file that does not open to the saved database (schedule {} {})", w.recv.len(), len, sched.term_script().chars().take(80).collect::<String>(), sched.term_fail()));
                    }
                }
                Err(DatabaseSaveError::Io(e)) => {
                    match sched.fail {
                        Some((off, kind)) if off < len && e.kind() == kind => {}
                        _ => o.violation = Some(format!("save returned {:?} but the sink did not fail inside the file", e.kind())),
                    }
                }
                Err(e) => o.violation = Some(format!("save failed with a non-I/O error {:?}", e)),
            }
        }
        o.nontrivial = true;
        o.input = sample;
        o
    });
    write_report(
        args,
        &agg,
        "small databases over 3x2x3 cipher/compression/inner-cipher choices (1 AES-KDF round), random draws scripted through the hook so each case has one reference file; per case 24 (quick) / 60 (thorough) sinks: short-write schedules (fixed caps 1..64, powers of two, random caps, interruptions) with and without a failure of kind Other/WriteZero/BrokenPipe at offsets 0, inside the header hash/HMAC, len-1, len, beyond, random; evaluations counts cases, each non-trivial (it runs >= 24 sink schedules); distinct = distinct (sizes, first schedule)",
        serde_json::json!({"sinks_per_case": per_case}),
    );
}

//! XML object mapping: correspondence between the crate's DumpXml / FromXml implementations and the
//! extracted event-level model (coq/theories/xml/XmlTypes.v, XmlDump.v, XmlParse.v; handlers in
//! ocaml/h_xml.ml, which documents the wire syntax of events and content terms).
//!
//! DUMP tie   the model's dump of the generated database, under the file's own inner key stream, is
//!            event for event what xml-rs reads back from the XML the crate saved.
//! PARSE tie  the model's parse of the events of a document (the saved one, a surface rewriting of it,
//!            or a damaged one) is the content / the XmlParseError variant `Database::open` yields for
//!            an authenticated file carrying that document.

use crate::common::*;
use crate::frame::Parts;
use crate::kdbx::open_error_class;
use crate::dbgen::{G, Mode};
use crate::kdbx2::make_base;
use crate::legacy::spec_stream;
use crate::oracle;
use crate::strict;
use keepass::db::{
    AutoType, Color, CustomData, Database, Entry, Group, Meta, Node, Times, Value,
};
use std::collections::{HashMap, VecDeque};

// ---------------------------------------------------------------------------------------------
// Events: xml-rs with the filtering of xml_db::parse::parse_from_bytes
// ---------------------------------------------------------------------------------------------
#[derive(Clone, Debug, PartialEq)]
pub enum Ev {
    Start(String, Vec<(String, String)>),
    End(String),
    Chars(String),
    Err,
}

pub fn events_of(xml: &[u8]) -> Vec<Ev> {
    let mut out = Vec::new();
    for e in xml::reader::EventReader::new(xml) {
        match e {
            Ok(xml::reader::XmlEvent::StartElement { name, attributes, .. }) => {
                out.push(Ev::Start(name.local_name, attributes.into_iter().map(|a| (a.name.local_name, a.value)).collect()))
            }
            Ok(xml::reader::XmlEvent::EndElement { name }) => out.push(Ev::End(name.local_name)),
            Ok(xml::reader::XmlEvent::Characters(c)) => out.push(Ev::Chars(c)),
            Err(_) => out.push(Ev::Err),
            _ => {}
        }
    }
    out
}

pub fn ev_term(e: &Ev) -> String {
    match e {
        Ev::Start(n, attrs) => format!("(s {} {})", hexatom(n.as_bytes()), slist(attrs.iter().map(|(k, v)| format!("({} {})", hexatom(k.as_bytes()), hexatom(v.as_bytes()))))),
        Ev::End(n) => format!("(e {})", hexatom(n.as_bytes())),
        Ev::Chars(t) => format!("(c {})", hexatom(t.as_bytes())),
        Ev::Err => "x".to_string(),
    }
}
pub fn events_term_of(evs: &[Ev]) -> String {
    slist(evs.iter().map(ev_term))
}
pub fn events_term(xml: &[u8]) -> String {
    events_term_of(&events_of(xml))
}

// ---------------------------------------------------------------------------------------------
// The iteration order of the HashMap-typed fields, as observed in a dumped document
// ---------------------------------------------------------------------------------------------
#[derive(Default, Debug)]
pub struct Orders {
    pub fields: VecDeque<Vec<String>>, // per <Entry>, in order of the start tags: the <String><Key> texts
    pub times: VecDeque<Vec<String>>,  // per <Times>: the child names before the final Expires / UsageCount
    pub cdata: VecDeque<Vec<String>>,  // per <CustomData>: the <Item><Key> texts
}

pub fn scan_orders(evs: &[Ev]) -> Orders {
    let mut o = Orders::default();
    let mut fields: Vec<Vec<String>> = Vec::new();
    let mut times: Vec<Vec<String>> = Vec::new();
    let mut cdata: Vec<Vec<String>> = Vec::new();
    let mut stack: Vec<String> = Vec::new();
    let mut entry_stack: Vec<usize> = Vec::new();
    let mut cd_stack: Vec<usize> = Vec::new();
    let mut times_cur: Option<usize> = None;
    let mut key_text: Option<String> = None;
    for e in evs {
        match e {
            Ev::Start(n, _) => {
                let parent = stack.last().map(|s| s.as_str()).unwrap_or("");
                match n.as_str() {
                    "Entry" => { fields.push(Vec::new()); entry_stack.push(fields.len() - 1); }
                    "CustomData" => { cdata.push(Vec::new()); cd_stack.push(cdata.len() - 1); }
                    "Times" => { times.push(Vec::new()); times_cur = Some(times.len() - 1); }
                    "Key" if parent == "String" || parent == "Item" => { key_text = Some(String::new()); }
                    _ => {}
                }
                if parent == "Times" {
                    if let Some(t) = times_cur { times[t].push(n.clone()); }
                }
                stack.push(n.clone());
            }
            Ev::Chars(t) => {
                if let Some(k) = key_text.as_mut() { k.push_str(t); }
            }
            Ev::End(n) => {
                stack.pop();
                let parent = stack.last().map(|s| s.as_str()).unwrap_or("");
                match n.as_str() {
                    "Entry" => { entry_stack.pop(); }
                    "CustomData" => { cd_stack.pop(); }
                    "Times" => {
                        // the writer ends every <Times> with <Expires> and <UsageCount>; a stamp that bears one of
                        // these names comes before them
                        if let Some(t) = times_cur { let k = times[t].len(); if k >= 2 && times[t][k - 2] == "Expires" && times[t][k - 1] == "UsageCount" { times[t].truncate(k - 2); } }
                        times_cur = None;
                    }
                    "Key" => {
                        if let Some(k) = key_text.take() {
                            if parent == "String" { if let Some(&i) = entry_stack.last() { fields[i].push(k); } }
                            else if parent == "Item" { if let Some(&i) = cd_stack.last() { cdata[i].push(k); } }
                        }
                    }
                    _ => {}
                }
            }
            Ev::Err => {}
        }
    }
    o.fields = fields.into();
    o.times = times.into();
    o.cdata = cdata.into();
    o
}

/// keys of a map in the observed order (unknown keys last, by key); without an observation: by key
fn ordered_keys<'a, V>(m: &'a HashMap<String, V>, ord: Option<Vec<String>>, ambiguous: &mut bool) -> Vec<&'a String> {
    let mut ks: Vec<&String> = m.keys().collect();
    match ord {
        None => ks.sort(),
        Some(ord) => {
            // a blank key leaves no Characters event: it is observed as the empty text
            let norm = |k: &String| -> String { if k.chars().all(|c| c == ' ' || c == '\t' || c == '\n' || c == '\r') { String::new() } else { k.clone() } };
            let pos = |k: &String| { let n = norm(k); ord.iter().position(|x| *x == n).unwrap_or(usize::MAX) };
            let mut seen: Vec<String> = ks.iter().map(|k| norm(k)).collect();
            seen.sort();
            if seen.windows(2).any(|w| w[0] == w[1]) { *ambiguous = true; }
            ks.sort_by(|a, b| (pos(a), *a).cmp(&(pos(b), *b)));
        }
    }
    ks
}

// ---------------------------------------------------------------------------------------------
// Content terms from the crate's public structs
// ---------------------------------------------------------------------------------------------
fn tx(s: &str) -> String { hexatom(s.as_bytes()) }
fn topt<T>(o: &Option<T>, f: impl Fn(&T) -> String) -> String { sopt(o.as_ref().map(|x| f(x))) }
fn tbool(b: bool) -> String { if b { "true".into() } else { "false".into() } }
fn ttime(t: &chrono::NaiveDateTime) -> String { format!("{}", t.and_utc().timestamp()) }
fn tuuid(u: &uuid::Uuid) -> String { hexatom(u.as_bytes()) }
fn tcolor(c: &Color) -> String { format!("({} {} {})", c.r, c.g, c.b) }
fn tvalue(v: &Value) -> String {
    match v {
        Value::Unprotected(s) => format!("(u {})", tx(s)),
        Value::Protected(p) => format!("(p {})", hexatom(p.unsecure())),
        Value::Bytes(b) => format!("(b {})", hexatom(b)),
    }
}

pub struct Printer { pub orders: Option<Orders>, pub ambiguous: bool }

impl Printer {
    fn times(&mut self, t: &Times) -> String {
        let ord = self.orders.as_mut().map(|o| o.times.pop_front().unwrap_or_default());
        let ks = ordered_keys(&t.times, ord, &mut self.ambiguous);
        format!("({} {} {})", tbool(t.expires), t.usage_count, slist(ks.iter().map(|k| format!("({} {})", tx(k), ttime(&t.times[*k])))))
    }
    fn cdata(&mut self, c: &CustomData) -> String {
        let ord = self.orders.as_mut().map(|o| o.cdata.pop_front().unwrap_or_default());
        let ks = ordered_keys(&c.items, ord, &mut self.ambiguous);
        slist(ks.iter().map(|k| { let i = &c.items[*k]; format!("({} ({} {}))", tx(k), topt(&i.value, tvalue), topt(&i.last_modification_time, ttime)) }))
    }
    fn autotype(&mut self, a: &AutoType) -> String {
        format!("({} {} {})", tbool(a.enabled), topt(&a.sequence, |s| tx(s)),
            slist(a.associations.iter().map(|x| format!("({} {})", topt(&x.window, |s| tx(s)), topt(&x.sequence, |s| tx(s))))))
    }
    // the pops follow the document order of the writer: fields (at <Entry>), CustomData, Times, History
    fn entry(&mut self, e: &Entry) -> String {
        let ford = self.orders.as_mut().map(|o| o.fields.pop_front().unwrap_or_default());
        let fk = ordered_keys(&e.fields, ford, &mut self.ambiguous);
        let fields = slist(fk.iter().map(|k| format!("({} {})", tx(k), tvalue(&e.fields[*k]))));
        let cd = self.cdata(&e.custom_data);
        let at = match &e.autotype { None => "none".to_string(), Some(a) => format!("(some {})", self.autotype(a)) };
        let tm = self.times(&e.times);
        let hist = match &e.history { None => "none".to_string(), Some(h) => format!("(some {})", slist(h.get_entries().iter().map(|x| self.entry(x)).collect::<Vec<_>>())) };
        format!("({} {} {} {} {} {} {} {} {} {} {} {} {})", tuuid(&e.uuid), fields, at, slist(e.tags.iter().map(|t| tx(t))), tm, cd,
            topt(&e.icon_id, |n| n.to_string()), topt(&e.custom_icon_uuid, tuuid), topt(&e.foreground_color, tcolor), topt(&e.background_color, tcolor),
            topt(&e.override_url, |s| tx(s)), topt(&e.quality_check, |b| tbool(*b)), hist)
    }
    // writer order: Times, CustomData, children
    fn group(&mut self, g: &Group) -> String {
        let tm = self.times(&g.times);
        let cd = self.cdata(&g.custom_data);
        let children: Vec<String> = g.children.iter().map(|c| match c { Node::Entry(e) => format!("(entry {})", self.entry(e)), Node::Group(x) => format!("(group {})", self.group(x)) }).collect();
        format!("({} {} {} {} {} {} {} {} {} {} {} {} {})", tuuid(&g.uuid), tx(&g.name), topt(&g.notes, |s| tx(s)), topt(&g.icon_id, |n| n.to_string()),
            topt(&g.custom_icon_uuid, tuuid), slist(children), tm, cd, tbool(g.is_expanded), topt(&g.default_autotype_sequence, |s| tx(s)),
            topt(&g.enable_autotype, |s| tx(s)), topt(&g.enable_searching, |s| tx(s)), topt(&g.last_top_visible_entry, tuuid))
    }
    fn meta(&mut self, m: &Meta) -> String {
        let cd = self.cdata(&m.custom_data);
        let f: Vec<String> = vec![
            topt(&m.generator, |s| tx(s)), topt(&m.database_name, |s| tx(s)), topt(&m.database_name_changed, ttime),
            topt(&m.database_description, |s| tx(s)), topt(&m.database_description_changed, ttime),
            topt(&m.default_username, |s| tx(s)), topt(&m.default_username_changed, ttime),
            topt(&m.maintenance_history_days, |n| n.to_string()), topt(&m.color, tcolor), topt(&m.master_key_changed, ttime),
            topt(&m.master_key_change_rec, |n| n.to_string()), topt(&m.master_key_change_force, |n| n.to_string()),
            topt(&m.memory_protection, |p| format!("({} {} {} {} {})", tbool(p.protect_title), tbool(p.protect_username), tbool(p.protect_password), tbool(p.protect_url), tbool(p.protect_notes))),
            slist(m.custom_icons.icons.iter().map(|i| format!("({} {})", tuuid(&i.uuid), hexatom(&i.data)))),
            topt(&m.recyclebin_enabled, |b| tbool(*b)), topt(&m.recyclebin_uuid, tuuid), topt(&m.recyclebin_changed, ttime),
            topt(&m.entry_templates_group, tuuid), topt(&m.entry_templates_group_changed, ttime),
            topt(&m.last_selected_group, tuuid), topt(&m.last_top_visible_group, tuuid),
            topt(&m.history_max_items, |n| n.to_string()), topt(&m.history_max_size, |n| n.to_string()), topt(&m.settings_changed, ttime),
            slist(m.binaries.binaries.iter().map(|b| format!("({} {} {})", topt(&b.identifier, |s| tx(s)), tbool(b.compressed), hexatom(&b.content)))),
            cd,
        ];
        slist(f)
    }
    /// document order: Meta (its CustomData), Root group, DeletedObjects
    pub fn content(&mut self, db: &Database) -> String {
        let m = self.meta(&db.meta);
        let g = self.group(&db.root);
        let d = slist(db.deleted_objects.objects.iter().map(|o| format!("({} {})", tuuid(&o.uuid), ttime(&o.deletion_time))));
        format!("({} {} {})", m, g, d)
    }
}

/// the content term of a database; map-typed fields in the given observed order, or sorted by key
pub fn content_term(db: &Database, orders: Option<Orders>) -> String {
    Printer { orders, ambiguous: false }.content(db)
}

/// total length of the protected values, in bytes (what the writer draws from the inner stream)
pub fn protected_len(db: &Database) -> usize {
    fn v(x: &Value) -> usize { if let Value::Protected(p) = x { p.unsecure().len() } else { 0 } }
    fn cd(c: &CustomData) -> usize { c.items.values().map(|i| i.value.as_ref().map(v).unwrap_or(0)).sum() }
    fn e(x: &Entry) -> usize { x.fields.values().map(v).sum::<usize>() + cd(&x.custom_data) + x.history.as_ref().map(|h| h.get_entries().iter().map(e).sum()).unwrap_or(0) }
    fn g(x: &Group) -> usize { cd(&x.custom_data) + x.children.iter().map(|c| match c { Node::Entry(y) => e(y), Node::Group(y) => g(y) }).sum::<usize>() }
    cd(&db.meta.custom_data) + g(&db.root)
}

// ---------------------------------------------------------------------------------------------
// Damage
// ---------------------------------------------------------------------------------------------
const GARBAGE: &[&str] = &["", " ", "zz", "-1", "+5", "007", "AAAA", "AAAAAAAAAAA=", "//////////8=", "/////////38=", "AAAAAAAAAIA=", "2020-13-01T00:00:00Z", "2021-02-29T10:00:00Z",
    "2020-02-29T23:59:60Z", "0000-01-01T00:00:00Z", "1999-12-31T23:59:59Z", "TRUE", "fAlSe", "yes", "#12345", "#1234567", "#+12345", "#abcdeF", "#ggggg1", "99999999999999999999", "18446744073709551615", "18446744073709551616",
    "9223372036854775808", "-9223372036854775808", "-9223372036854775809", "!!!!", "QUJD", "QUJDRA==", "QUJDRA=", "a;b,c;;", "AAAAAAAAAAAAAAAAAAAAAA==", "AAAAAAAAAAAAAAAAAAAAAAA="];

fn find_all(hay: &str, needle: &str) -> Vec<usize> {
    hay.match_indices(needle).map(|(i, _)| i).collect()
}

/// (kind, damaged document)
fn damage(xml: &[u8], rng: &mut Rng) -> (&'static str, Vec<u8>) {
    let Ok(text) = String::from_utf8(xml.to_vec()) else { return ("none", xml.to_vec()); };
    match rng.below(10) {
        0 => { let k = rng.below(xml.len() as u64 + 1) as usize; ("truncate-at-byte", xml[..k].to_vec()) }
        1 => {
            let lt = find_all(&text, "<");
            if lt.len() < 3 { return ("none", xml.to_vec()); }
            let k = lt[rng.range(1, lt.len() as u64 - 1) as usize];
            ("truncate-at-tag", xml[..k].to_vec())
        }
        2 | 3 | 4 => {
            // the text of a random element that has one
            let spots: Vec<(usize, usize)> = text.match_indices('>').filter_map(|(i, _)| {
                let rest = &text[i + 1..];
                let end = rest.find('<')?;
                if end == 0 || !rest[end..].starts_with("</") { return None; }
                Some((i + 1, i + 1 + end))
            }).collect();
            if spots.is_empty() { return ("none", xml.to_vec()); }
            let (a, b) = *rng.pick(&spots);
            let g = *rng.pick(GARBAGE);
            ("scalar-text-garbage", format!("{}{}{}", &text[..a], g, &text[b..]).into_bytes())
        }
        5 => {
            let closes = find_all(&text, "</");
            if closes.is_empty() { return ("none", xml.to_vec()); }
            let a = *rng.pick(&closes);
            let b = a + text[a..].find('>').map(|x| x + 1).unwrap_or(0);
            ("closing-tag-dropped", format!("{}{}", &text[..a], &text[b..]).into_bytes())
        }
        6 => {
            let alts = ["Protected=\"yes\"", "Protected=\"\"", "Protected=\"1\"", "Protected=\"False\"", "Protected=\"tRUE\"", "protected=\"True\""];
            let sp = find_all(&text, "Protected=\"True\"");
            if sp.is_empty() {
                let sp2 = find_all(&text, "Compressed=\"True\"");
                if sp2.is_empty() { return ("none", xml.to_vec()); }
                let a = *rng.pick(&sp2);
                let alt = *rng.pick(&["Compressed=\"maybe\"", "Compressed=\"true\"", "Compressed=\"False\"", "Compressed=\"\""]);
                return ("attribute-value", format!("{}{}{}", &text[..a], alt, &text[a + 17..]).into_bytes());
            }
            let a = *rng.pick(&sp);
            ("attribute-value", format!("{}{}{}", &text[..a], rng.pick(&alts), &text[a + 16..]).into_bytes())
        }
        7 => {
            // an unprotected value marked Protected: its text is taken for base64 and draws from the stream
            let sp = find_all(&text, "<Value>");
            if sp.is_empty() { return ("none", xml.to_vec()); }
            let a = *rng.pick(&sp);
            let alt = *rng.pick(&["<Value Protected=\"True\">", "<Value Protected=\"TRUE\">", "<Value Protected=\"maybe\">", "<Value x=\"1\" Protected=\"true\">"]);
            ("value-marked-protected", format!("{}{}{}", &text[..a], alt, &text[a + 7..]).into_bytes())
        }
        8 => {
            // an element emptied: <X>text</X> -> <X></X> or <X />
            let spots: Vec<(usize, usize)> = text.match_indices('>').filter_map(|(i, _)| {
                let rest = &text[i + 1..];
                let end = rest.find('<')?;
                if end == 0 || !rest[end..].starts_with("</") { return None; }
                Some((i + 1, i + 1 + end))
            }).collect();
            if spots.is_empty() { return ("none", xml.to_vec()); }
            let (a, b) = *rng.pick(&spots);
            ("element-emptied", format!("{}{}", &text[..a], &text[b..]).into_bytes())
        }
        _ => {
            // a child element duplicated in place (the later one wins / map entries are replaced)
            let names = ["Times", "String", "Item", "UUID", "Name", "Tags", "AutoType", "Association", "CustomData", "IsExpanded", "DeletedObject", "Binary", "Icon", "MemoryProtection", "History", "Entry"];
            let n = *rng.pick(&names);
            let open = format!("<{}>", n);
            let close = format!("</{}>", n);
            let sp = find_all(&text, &open);
            if sp.is_empty() { return ("none", xml.to_vec()); }
            let a = *rng.pick(&sp);
            let Some(rel) = text[a..].find(&close) else { return ("none", xml.to_vec()); };
            let b = a + rel + close.len();
            ("element-duplicated", format!("{}{}{}", &text[..b], &text[a..b], &text[b..]).into_bytes())
        }
    }
}

// ---------------------------------------------------------------------------------------------
fn catch<T>(f: impl FnOnce() -> T) -> Result<T, String> {
    std::panic::catch_unwind(std::panic::AssertUnwindSafe(f)).map_err(|e| {
        if let Some(s) = e.downcast_ref::<String>() { s.clone() } else if let Some(s) = e.downcast_ref::<&str>() { s.to_string() } else { "panic".into() }
    })
}

fn first_diff(a: &str, b: &str) -> String {
    let ab = a.as_bytes();
    let bb = b.as_bytes();
    let n = ab.iter().zip(bb.iter()).take_while(|(x, y)| x == y).count();
    let lo = n.saturating_sub(120);
    let cut = |s: &str| -> String { let hi = (n + 120).min(s.len()); String::from_utf8_lossy(&s.as_bytes()[lo.min(s.len())..hi]).to_string() };
    format!("at {}: ...{}", n, cut(a)) + &format!(" | ...{}", cut(b))
}

/// what `Database::open` makes of an authenticated file carrying `xml`: "ok <content term, maps sorted>" or "err <Class>"
fn impl_open(file: &[u8], key: keepass::DatabaseKey) -> Result<(String, Option<Database>), String> {
    match catch(|| Database::open(&mut &file[..], key)) {
        Err(p) => Err(p),
        Ok(Ok(db)) => Ok((format!("ok {}", content_term(&db, None)), Some(db))),
        Ok(Err(e)) => Ok((format!("err {}", open_error_class(&e)), None)),
    }
}
fn model_class(reply: &str) -> String {
    match reply.strip_prefix("err ") { Some(c) => format!("err Xml.{}", c), None => reply.to_string() }
}

pub fn run(args: &Args) {
    let mut agg = Aggregate::new();
    run_cases(&mut agg, args, "xml-object-mapping", args.n(300, 10_000), |i, rng, model| {
        let mut o = CaseOutcome::default();
        let Some(base) = make_base(rng, i % 4 == 3) else { o.violation = Some("save failed".into()); return o; };
        let els = base.creds.elements();
        let s = match strict::read(&base.bytes, &els) { Ok(s) => s, Err(w) => { o.violation = Some(format!("strict reader rejects: {}", w)); return o; } };
        let ks = spec_stream(s.inner_cipher, &s.inner_key, s.xml.len() + 4096);
        let ks_atom = hexatom(&ks);
        let evs = events_of(&s.xml);
        let nprot = protected_len(&base.db);
        o.tags.push(format!("inner:{}", match s.inner_cipher { 2 => "salsa20", 3 => "chacha20", _ => "plain" }));
        o.tags.push(format!("events:{}", match evs.len() { 0..=99 => "<100", 100..=499 => "100-499", 500..=1999 => "500-1999", _ => ">=2000" }));
        o.tags.push(format!("protected-bytes:{}", match nprot { 0 => "0", 1..=49 => "1-49", _ => ">=50" }));
        o.nontrivial = true;

        // ---- DUMP tie
        let term = content_term(&base.db, Some(scan_orders(&evs)));
        let want = format!("ok {} {}", events_term_of(&evs), nprot);
        let got = model.eval_with(&format!("(xml-dump {} {})", term, ks_atom), &oracle::serve);
        o.input = format!("(xml case {} events {} protected-bytes {} inner {})", i, evs.len(), nprot, s.inner_cipher);
        if got != want {
            o.disagreement = Some((format!("dump: {}", first_diff(&want, &got)), "dump".into()));
            o.tags.push("dump:DISAGREE".into());
            return o;
        }
        o.tags.push("dump:agree".into());

        // ---- TEXT tie: the model of the xml-rs reader lexes the saved document to the same events, and
        // the model of the xml-rs writer prints these events as the same bytes
        let lexed = model.eval_with(&format!("(xml-lex {})", hexatom(&s.xml)), &oracle::serve);
        if lexed != events_term_of(&evs) {
            o.disagreement = Some((format!("lex: {}", first_diff(&events_term_of(&evs), &lexed)), "lex".into()));
            o.tags.push("lex:DISAGREE".into());
            return o;
        }
        o.tags.push("lex:agree".into());
        let rendered = model.eval_with(&format!("(xml-render {})", events_term_of(&evs)), &oracle::serve);
        if rendered != hexatom(&s.xml) {
            // a non-empty text that is blank is written by the crate (<N> </N>) and is not an event the reader
            // delivers: the event list cannot reproduce it (the model prints <N />); both read back alike
            let blank_text = { let x = &s.xml; let mut found = false; let mut i = 0; while i < x.len() { if x[i] == b'>' { let mut j = i + 1; while j < x.len() && (x[j] == b' ' || x[j] == b'\t' || x[j] == b'\n' || x[j] == b'\r') { j += 1; } if j > i + 1 && j + 1 < x.len() && x[j] == b'<' && x[j + 1] == b'/' { found = true; break; } } i += 1; } found };
            if blank_text { o.tags.push("render:blank-text-not-comparable".into()); }
            else {
                o.disagreement = Some((format!("render: {}", first_diff(&hexatom(&s.xml), &rendered)), "render".into()));
                o.tags.push("render:DISAGREE".into());
                return o;
            }
        } else { o.tags.push("render:agree".into()); }

        // ---- PARSE tie on the saved document and on a surface rewriting of it
        // an authenticated file carrying xml2, and the bytes the crate's XML reader is handed for it: keepass'
        // TwofishCipher::decrypt validates the PKCS#7 padding but does not remove it (oracle::outer_dec_as_keepass),
        // so without compression the padding bytes follow the document.  They are beyond </KeePassFile> in a
        // complete document (never looked at), but they are part of a truncated one.
        let rebuild = |xml2: &[u8]| -> (Vec<u8>, Vec<u8>) {
            let mut parts = Parts::of(&base.bytes, &s, &els);
            let ih = parts.payload.len() - s.xml.len();
            parts.payload.truncate(ih);
            parts.payload.extend_from_slice(xml2);
            let mut seen = xml2.to_vec();
            if parts.cipher == 1 && parts.compression == 0 {
                let pad = 16 - parts.payload.len() % 16;
                seen.extend(std::iter::repeat(pad as u8).take(pad));
            }
            (parts.build(), seen)
        };
        // the assumption above is checked against the crate's own decryption (get_xml does no XML parsing)
        let seen_ok = |file: &[u8], seen: &[u8]| -> bool { match Database::get_xml(&mut &file[..], base.creds.key()) { Ok(x) => x == seen, Err(_) => true } };
        let (varied, used) = crate::xmlsurf::vary(&s.xml, rng);
        for (label, doc, is_saved) in [("saved", s.xml.clone(), true), ("varied", varied, false)] {
            let (file, seen) = if is_saved { (base.bytes.clone(), rebuild(&doc).1) } else { rebuild(&doc) };
            if !seen_ok(&file, &seen) { o.violation = Some("harness: the document handed to the crate's XML reader is not the one assumed".into()); o.violation_class = Some("harness-assumption".into()); return o; }
            if seen.len() != doc.len() { o.tags.push("twofish-padding-follows-document".into()); }
            let doc = seen;
            let (impl_s, db2) = match impl_open(&file, base.creds.key()) { Ok(x) => x, Err(p) => { o.violation = Some(format!("open panicked on the {} document: {}", label, p)); return o; } };
            let m = model.eval_with(&format!("(xml-parse {} {} sorted)", events_term(&doc), ks_atom), &oracle::serve);
            if model_class(&m) != impl_s {
                o.disagreement = Some((format!("parse {}: {}", label, first_diff(&impl_s, &model_class(&m))), "parse".into()));
                o.tags.push(format!("parse-{}:DISAGREE", label));
                return o;
            }
            o.tags.push(format!("parse-{}:agree", label));
            // the instance of the round-trip theorem on the real code
            match db2 { Some(d) if d == base.db => {} Some(d) => { o.violation = Some(format!("open(save(db)) differs from db ({} document): {}", label, crate::diff::first_difference(&base.db, &d))); o.violation_class = Some("xml-roundtrip".into()); } None => { o.violation = Some(format!("the {} document does not open: {}", label, impl_s)); o.violation_class = Some("xml-roundtrip".into()); } }
        }
        for u in &used { o.tags.push(format!("variant:{}", u)); }

        // ---- PARSE tie on damaged documents
        for _ in 0..3 {
            let (kind, doc) = damage(&s.xml, rng);
            if kind == "none" { continue; }
            let (file, doc) = rebuild(&doc);
            if !seen_ok(&file, &doc) { o.violation = Some("harness: the document handed to the crate's XML reader is not the one assumed".into()); o.violation_class = Some("harness-assumption".into()); return o; }
            let (impl_s, _) = match impl_open(&file, base.creds.key()) { Ok(x) => x, Err(p) => { o.violation = Some(format!("open panicked on a damaged document ({}): {}", kind, p)); o.violation_class = Some("xml-panic".into()); return o; } };
            let m = model.eval_with(&format!("(xml-parse {} {} sorted)", events_term(&doc), ks_atom), &oracle::serve);
            let cls = if impl_s.starts_with("ok ") { "ok".to_string() } else { impl_s.clone() };
            o.tags.push(format!("damage:{}", kind));
            o.tags.push(format!("damage-result:{}", cls));
            if model_class(&m) != impl_s {
                o.disagreement = Some((format!("damaged ({}): {}", kind, first_diff(&impl_s, &model_class(&m))), String::from_utf8_lossy(&doc).chars().take(4000).collect()));
                o.tags.push("damage:DISAGREE".into());
                return o;
            }
        }
        o
    });

    // ---- the boundary of the round-trip domain, on the real code: databases from the hostile generator
    // (one ingredient class per case).  The model's wf_content verdict must imply open(save(db)) = db;
    // for contents outside wf_content the histogram records, per ingredient, whether the real crate
    // loses it; DUMP and PARSE ties are checked as well (the parse tie includes the error class when
    // the crate cannot read back what it wrote).
    const CLASSES: &[&str] = &["blank-map-key", "time-stamp-name", "empty-icon-or-binary", "bytes-value", "lossy-text", "protected-odd", "odd-key", "subsecond-time"];
    run_cases(&mut agg, args, "xml-domain", args.n(400, 10_000), |i, rng, model| {
        let mut o = CaseOutcome::default();
        o.nontrivial = true;
        let class = CLASSES[(i as usize) % CLASSES.len()];
        let creds = crate::kdbx2::gen_creds(rng);
        let (db, htags) = { let mut g = G::new(rng, Mode::Hostile, false); g.only = Some(class); let d = g.database(true); (d, g.hostile_tags.clone()) };
        o.input = format!("(xml-domain case {} class {} ingredients {:?})", i, class, htags);
        o.tags.push(format!("class:{}", class));
        let draws: Vec<Vec<u8>> = crate::kdbx::draw_sizes(&db.config).into_iter().map(|n| rng.bytes(n)).collect();
        crate::hook::script(draws);
        let mut bytes = Vec::new();
        let saved = db.save(&mut bytes, creds.key());
        crate::hook::unscript();
        let subsecond = htags.iter().any(|t| t == "subsecond-time");
        // is the text layer (below the event level) involved?  characters XML cannot carry, CR (line-end
        // normalisation) and stamp names that are not XML names
        let text_layer = htags.iter().any(|t| ["c0-control", "nonchar", "carriage-return", "c1-control", "time-name-empty", "time-name-not-xml-name"].contains(&t.as_str()));
        if saved.is_err() {
            let got = model.eval_with(&format!("(xml-dump {} x)", content_term(&db, None)), &oracle::serve);
            o.tags.push("save:error".into());
            if got != "err InvalidData" { o.disagreement = Some(("save returns an error".into(), got.chars().take(200).collect())); }
            return o;
        }
        let els = creds.elements();
        let s = match strict::read(&bytes, &els) { Ok(s) => s, Err(w) => { o.violation = Some(format!("strict reader rejects: {}", w)); return o; } };
        let ks = spec_stream(s.inner_cipher, &s.inner_key, s.xml.len() + 4096);
        let ks_atom = hexatom(&ks);
        let evs = events_of(&s.xml);
        let wellformed = !evs.iter().any(|e| *e == Ev::Err);
        let term_sorted = content_term(&db, None);
        // model verdict on the domain (plus "whole seconds", which the model's time type builds in)
        let wf = model.eval_with(&format!("(xml-wf {})", term_sorted), &oracle::serve) == "true" && !subsecond && !text_layer;
        let (impl_s, db2) = match impl_open(&bytes, creds.key()) { Ok(x) => x, Err(p) => { o.violation = Some(format!("open panicked on the crate's own output: {}", p)); o.violation_class = Some("xml-panic".into()); return o; } };
        let identity = db2.as_ref().map(|d| *d == db).unwrap_or(false);
        o.tags.push(format!("wf:{} identity:{}", wf, identity));
        if !wf && identity { o.tags.push(format!("outside-wf-but-kept:{:?}", htags)); }
        for t in &htags { o.tags.push(format!("ingredient:{} -> {}", t, if identity { "kept" } else if db2.is_some() { "altered" } else { "unreadable" })); }
        if wf && !identity {
            o.violation = Some(format!("content inside wf_content is not read back: {}", match &db2 { Some(d) => crate::diff::first_difference(&db, d), None => impl_s.clone() }));
            o.violation_class = Some("xml-roundtrip".into());
        }
        if !wellformed || text_layer { o.tags.push("ties:skipped(text-layer)".into()); return o; }
        // DUMP tie
        let mut pr = Printer { orders: Some(scan_orders(&evs)), ambiguous: false };
        let term = pr.content(&db);
        if pr.ambiguous { o.tags.push("dump:skipped(two blank keys in one map: order not observable)".into()); } else {
            let want = format!("ok {} {}", events_term_of(&evs), protected_len(&db));
            let got = model.eval_with(&format!("(xml-dump {} {})", term, ks_atom), &oracle::serve);
            if got != want { o.disagreement = Some((format!("dump: {}", first_diff(&want, &got)), "dump".into())); o.tags.push("dump:DISAGREE".into()); return o; }
            o.tags.push("dump:agree".into());
        }
        // PARSE tie (result or error class)
        let m = model.eval_with(&format!("(xml-parse {} {} sorted)", events_term_of(&evs), ks_atom), &oracle::serve);
        if model_class(&m) != impl_s { o.disagreement = Some((format!("parse: {}", first_diff(&impl_s, &model_class(&m))), "parse".into())); o.tags.push("parse:DISAGREE".into()); return o; }
        o.tags.push(format!("parse:agree ({})", if impl_s.starts_with("ok ") { "ok".to_string() } else { impl_s.clone() }));
        o
    });
    write_report(args, &agg, "TEXT tie on every saved document: the model of the xml-rs reader (XmlText.lex_xml) lexes the document to the same events as xml-rs, and the model of the xml-rs writer (XmlText.render_xml) prints those events as the same bytes (byte-exact, except documents holding a blank non-empty text, which no event list reproduces); stream xml-object-mapping: for each generated database saved by the crate (scripted randomness; 3 in 4 with the full object model incl. Meta, 1 in 4 small), the strict reader extracts the XML and the inner stream; DUMP tie: the extracted model's dump_content of the database's content term (map-typed fields in the order observed in the saved document), under the same key stream, must be event for event what xml-rs (with the filtering of parse_from_bytes) reads from the saved XML, and must draw exactly the total length of the protected values from the stream; PARSE tie: the model's parse_events of the events of the saved document and of a surface rewriting (empty-element forms, ISO time stamps, attribute case and quoting, unknown elements, white space and comments) must equal the content Database::open returns for an authenticated file carrying that document (maps sorted on both sides), which in turn must equal the generated database; and for three damaged documents per case (truncation at a byte / at a tag, scalar text replaced by garbage, closing tag dropped, attribute values, an unprotected value marked Protected, an element emptied, an element duplicated) the model's result (content or XmlParseError variant) must equal the crate's; stream xml-domain: databases from the hostile generator (one ingredient class per case: blank map keys, stamp names Expires/UsageCount/non-names, empty icon or attachment bodies, Value::Bytes, empty/blank/separator-laden texts, odd protected values, odd keys, sub-second times) saved by the crate; the extracted wf_content must imply that open(save(db)) = db on the real code (violation otherwise), the histogram records per ingredient whether it is kept, altered or makes the file unreadable, and the DUMP and PARSE ties (including the error class of an unreadable own output and the writer's InvalidData error) are checked wherever the text layer below the events is not involved; every case is non-trivial", serde_json::json!({}));
}

//! The primitives the extracted model asks for, computed by calling the RustCrypto / flate2 /
//! rust-argon2 crates directly (never through keepass), so that model and implementation share
//! primitives but no framing code.

use cipher::{block_padding::Pkcs7, BlockDecryptMut, BlockEncrypt, BlockEncryptMut, KeyInit, KeyIvInit, StreamCipher};
use hmac::{Hmac, Mac};
use sha2::{Digest, Sha256, Sha512};
use std::io::{Read, Write};

pub fn sha256(d: &[u8]) -> Vec<u8> {
    Sha256::digest(d).to_vec()
}
pub fn sha512(d: &[u8]) -> Vec<u8> {
    Sha512::digest(d).to_vec()
}
pub fn hmac256(key: &[u8], msg: &[u8]) -> Vec<u8> {
    let mut m = <Hmac<Sha256> as Mac>::new_from_slice(key).unwrap();
    m.update(msg);
    m.finalize().into_bytes().to_vec()
}

/// kdf description as printed by the driver: "(aes R)" or "(argon2 id|d I M P V)"
pub fn kdf(desc: &str, seed: &[u8], composite: &[u8]) -> Option<Vec<u8>> {
    let t: Vec<&str> = desc.trim_matches(|c| c == '(' || c == ')').split(' ').collect();
    if composite.len() != 32 {
        return None;
    }
    match t[0] {
        "aes" => {
            let rounds: u64 = t[1].parse().ok()?;
            let c = aes::Aes256::new_from_slice(seed).ok()?;
            let mut b1 = *cipher::generic_array::GenericArray::from_slice(&composite[..16]);
            let mut b2 = *cipher::generic_array::GenericArray::from_slice(&composite[16..]);
            for _ in 0..rounds {
                c.encrypt_block(&mut b1);
                c.encrypt_block(&mut b2);
            }
            let mut h = Sha256::new();
            h.update(b1);
            h.update(b2);
            Some(h.finalize().to_vec())
        }
        "argon2" => {
            let iterations: u64 = t[2].parse().ok()?;
            let memory: u64 = t[3].parse().ok()?;
            let par: u32 = t[4].parse().ok()?;
            let cfg = argon2::Config {
                ad: &[],
                hash_length: 32,
                lanes: par,
                mem_cost: (memory / 1024) as u32,
                secret: &[],
                time_cost: iterations as u32,
                variant: if t[1] == "id" { argon2::Variant::Argon2id } else { argon2::Variant::Argon2d },
                version: if t[5] == "16" { argon2::Version::Version10 } else { argon2::Version::Version13 },
            };
            argon2::hash_raw(composite, seed, &cfg).ok()
        }
        _ => None,
    }
}

pub fn outer_enc(tag: u8, key: &[u8], iv: &[u8], data: &[u8]) -> Option<Vec<u8>> {
    match tag {
        0 => Some(cbc::Encryptor::<aes::Aes256>::new_from_slices(key, iv).ok()?.encrypt_padded_vec_mut::<Pkcs7>(data)),
        1 => Some(cbc::Encryptor::<twofish::Twofish>::new_from_slices(key, iv).ok()?.encrypt_padded_vec_mut::<Pkcs7>(data)),
        _ => {
            let mut c = chacha20::ChaCha20::new_from_slices(key, iv).ok()?;
            let mut b = data.to_vec();
            c.apply_keystream(&mut b);
            Some(b)
        }
    }
}
pub fn outer_dec(tag: u8, key: &[u8], iv: &[u8], data: &[u8]) -> Option<Vec<u8>> {
    match tag {
        0 => cbc::Decryptor::<aes::Aes256>::new_from_slices(key, iv).ok()?.decrypt_padded_vec_mut::<Pkcs7>(data).ok(),
        1 => cbc::Decryptor::<twofish::Twofish>::new_from_slices(key, iv).ok()?.decrypt_padded_vec_mut::<Pkcs7>(data).ok(),
        _ => outer_enc(2, key, iv, data),
    }
}
/// What keepass' TwofishCipher::decrypt returns: the padding is validated but NOT removed (the
/// slice returned by decrypt_padded_mut is ignored).  The model's outer_dec is served this for
/// Twofish so that it mirrors the code; the strict reader uses the unpadded plaintext.
pub fn outer_dec_as_keepass(tag: u8, key: &[u8], iv: &[u8], data: &[u8]) -> Option<Vec<u8>> {
    if tag == 1 {
        outer_dec(1, key, iv, data)?;
        let mut buf = data.to_vec();
        use cipher::block_padding::NoPadding;
        cbc::Decryptor::<twofish::Twofish>::new_from_slices(key, iv).ok()?.decrypt_padded_mut::<NoPadding>(&mut buf).ok()?;
        Some(buf)
    } else {
        outer_dec(tag, key, iv, data)
    }
}
pub fn compress(tag: u8, data: &[u8]) -> Option<Vec<u8>> {
    if tag == 0 {
        return Some(data.to_vec());
    }
    let mut res = Vec::new();
    let mut e = flate2::write::GzEncoder::new(&mut res, flate2::Compression::default());
    e.write_all(data).ok()?;
    e.flush().ok()?;
    e.finish().ok()?;
    Some(res)
}
pub fn decompress(tag: u8, data: &[u8]) -> Option<Vec<u8>> {
    if tag == 0 {
        return Some(data.to_vec());
    }
    let mut res = Vec::new();
    flate2::read::GzDecoder::new(data).read_to_end(&mut res).ok()?;
    Some(res)
}
pub fn inner_stream(cipher: &str, key: &[u8], len: usize) -> Option<Vec<u8>> {
    let mut b = vec![0u8; len];
    match cipher {
        "salsa20" => {
            let iv = [0xE8, 0x30, 0x09, 0x4B, 0x97, 0x20, 0x5D, 0x2A];
            salsa20::Salsa20::new_from_slices(key, &iv).ok()?.apply_keystream(&mut b);
        }
        "chacha20" => {
            let h = sha512(key);
            chacha20::ChaCha20::new_from_slices(&h[0..32], &h[32..44]).ok()?.apply_keystream(&mut b);
        }
        _ => {}
    }
    Some(b)
}

/// The oracle handed to ModelProc::eval_with.
pub fn serve(name: &str, args: &[Vec<u8>]) -> Option<Vec<u8>> {
    match (name, args.len()) {
        ("sha256", 1) => Some(sha256(&args[0])),
        ("sha512", 1) => Some(sha512(&args[0])),
        ("hmac256", 2) => Some(hmac256(&args[0], &args[1])),
        ("kdf", 3) => kdf(std::str::from_utf8(&args[0]).ok()?, &args[1], &args[2]),
        ("outer_enc", 4) => outer_enc(*args[0].first()?, &args[1], &args[2], &args[3]),
        ("outer_dec", 4) => outer_dec_as_keepass(*args[0].first()?, &args[1], &args[2], &args[3]),
        ("compress", 2) => compress(*args[0].first()?, &args[1]),
        ("decompress", 2) => decompress(*args[0].first()?, &args[1]),
        _ => None,
    }
}

//! A layout-parametric KDBX4 file builder (a "conforming writer" for C01, and the source of
//! authenticated-but-malformed files for C05/C06).  It is harness code on top of oracle.rs and
//! shares nothing with keepass.

use crate::common::Rng;
use crate::oracle;
use crate::strict::Strict;

#[derive(Clone)]
pub struct Parts {
    pub minor: u16,
    pub fields: Vec<(u8, Vec<u8>)>, // outer header fields without the end marker, in file order
    pub end_field: Vec<u8>,         // content of the end-of-header field (KeePass writes 0d0a0d0a)
    pub master_seed: Vec<u8>,
    pub transformed: Vec<u8>,       // KDF output for the credentials
    pub cipher: u8,
    pub iv: Vec<u8>,
    pub compression: u32,
    pub payload: Vec<u8>,           // inner header + XML, in clear
    pub partition: Vec<usize>,      // block sizes of the encrypted payload (must sum to its length)
    pub terminator: bool,
    pub trailing: Vec<u8>,
}

pub fn vd_bytes(entries: &[(Vec<u8>, u8, Vec<u8>)]) -> Vec<u8> {
    let mut v = vec![0x00, 0x01];
    for (k, ty, val) in entries {
        v.push(*ty);
        v.extend_from_slice(&(k.len() as u32).to_le_bytes());
        v.extend_from_slice(k);
        v.extend_from_slice(&(val.len() as u32).to_le_bytes());
        v.extend_from_slice(val);
    }
    v.push(0);
    v
}

/// the raw KDF dictionary entries of a file read by the strict reader
pub fn vd_entries_of(file: &[u8], s: &Strict) -> Vec<(Vec<u8>, u8, Vec<u8>)> {
    // re-walk field 11
    let mut pos = 12;
    loop {
        let ty = file[pos];
        let len = u32::from_le_bytes([file[pos + 1], file[pos + 2], file[pos + 3], file[pos + 4]]) as usize;
        if ty == 11 {
            let vd = &file[pos + 5..pos + 5 + len];
            let mut p = 2;
            let mut out = Vec::new();
            while vd[p] != 0 {
                let t = vd[p];
                let kl = u32::from_le_bytes([vd[p + 1], vd[p + 2], vd[p + 3], vd[p + 4]]) as usize;
                let k = vd[p + 5..p + 5 + kl].to_vec();
                let q = p + 5 + kl;
                let vl = u32::from_le_bytes([vd[q], vd[q + 1], vd[q + 2], vd[q + 3]]) as usize;
                out.push((k, t, vd[q + 4..q + 4 + vl].to_vec()));
                p = q + 4 + vl;
            }
            return out;
        }
        pos += 5 + len;
        if pos >= s.header_len {
            return Vec::new();
        }
    }
}

impl Parts {
    /// the parts of a file accepted by the strict reader (payload re-derived in clear)
    pub fn of(file: &[u8], s: &Strict, key_elements: &[Vec<u8>]) -> Parts {
        let composite = oracle::sha256(&key_elements.concat());
        let transformed = oracle::kdf(&s.kdf, &s.kdf_seed, &composite).expect("kdf");
        let mut fields = Vec::new();
        let mut pos = 12;
        let mut end_field = Vec::new();
        loop {
            let ty = file[pos];
            let len = u32::from_le_bytes([file[pos + 1], file[pos + 2], file[pos + 3], file[pos + 4]]) as usize;
            let buf = file[pos + 5..pos + 5 + len].to_vec();
            pos += 5 + len;
            if ty == 0 {
                end_field = buf;
                break;
            }
            fields.push((ty, buf));
        }
        let master_key = oracle::sha256(&[&s.master_seed[..], &transformed[..]].concat());
        let dec = oracle::outer_dec(s.cipher, &master_key, &s.iv, &s.payload_encrypted).expect("dec");
        let payload = oracle::decompress(s.compression as u8, &dec).expect("decompress");
        Parts {
            minor: s.minor, fields, end_field, master_seed: s.master_seed.clone(), transformed, cipher: s.cipher, iv: s.iv.clone(),
            compression: s.compression, payload, partition: vec![s.payload_encrypted.len()], terminator: true, trailing: Vec::new(),
        }
    }

    pub fn header(&self) -> Vec<u8> {
        let mut h = vec![0x03, 0xd9, 0xa2, 0x9a, 0x67, 0xfb, 0x4b, 0xb5];
        h.extend_from_slice(&self.minor.to_le_bytes());
        h.extend_from_slice(&4u16.to_le_bytes());
        for (ty, buf) in &self.fields {
            h.push(*ty);
            h.extend_from_slice(&(buf.len() as u32).to_le_bytes());
            h.extend_from_slice(buf);
        }
        h.push(0);
        h.extend_from_slice(&(self.end_field.len() as u32).to_le_bytes());
        h.extend_from_slice(&self.end_field);
        h
    }
    pub fn hmac_key(&self) -> Vec<u8> {
        oracle::sha512(&[&self.master_seed[..], &self.transformed[..], &[1u8][..]].concat())
    }
    pub fn block_key(&self, i: u64) -> Vec<u8> {
        oracle::sha512(&[&i.to_le_bytes()[..], &self.hmac_key()[..]].concat())
    }
    pub fn encrypted(&self) -> Vec<u8> {
        let master_key = oracle::sha256(&[&self.master_seed[..], &self.transformed[..]].concat());
        let comp = oracle::compress(self.compression as u8, &self.payload).expect("compress");
        oracle::outer_enc(self.cipher, &master_key, &self.iv, &comp).expect("enc")
    }
    /// blocks of an (already encrypted) payload according to the partition
    pub fn blocks(&self, enc: &[u8]) -> Vec<Vec<u8>> {
        let mut out = Vec::new();
        let mut pos = 0;
        let mut idx: u64 = 0;
        let mut sizes = self.partition.clone();
        let total: usize = sizes.iter().sum();
        if total < enc.len() {
            sizes.push(enc.len() - total);
        }
        for sz in sizes {
            let sz = sz.min(enc.len() - pos);
            if sz == 0 {
                continue;
            }
            out.push(self.block(idx, &enc[pos..pos + sz]));
            pos += sz;
            idx += 1;
        }
        if self.terminator {
            out.push(self.block(idx, &[]));
        }
        out
    }
    pub fn block(&self, idx: u64, data: &[u8]) -> Vec<u8> {
        let size = (data.len() as u32).to_le_bytes();
        let msg = [&idx.to_le_bytes()[..], &size[..], data].concat();
        let mut b = oracle::hmac256(&self.block_key(idx), &msg);
        b.extend_from_slice(&size);
        b.extend_from_slice(data);
        b
    }
    pub fn build(&self) -> Vec<u8> {
        let h = self.header();
        let mut f = h.clone();
        f.extend_from_slice(&oracle::sha256(&h));
        f.extend_from_slice(&oracle::hmac256(&self.block_key(u64::MAX), &h));
        for b in self.blocks(&self.encrypted()) {
            f.extend_from_slice(&b);
        }
        f.extend_from_slice(&self.trailing);
        f
    }

    /// a random conforming layout: header-field permutation, comment fields, KeePass-style end
    /// field, block partition into 1..n blocks of >= 1 byte
    pub fn relayout(&mut self, rng: &mut Rng) {
        for i in (1..self.fields.len()).rev() {
            let j = rng.below(i as u64 + 1) as usize;
            self.fields.swap(i, j);
        }
        for _ in 0..rng.below(3) {
            let at = rng.below(self.fields.len() as u64 + 1) as usize;
            let n = rng.below(20) as usize;
            self.fields.insert(at, (1, rng.bytes(n)));
        }
        self.end_field = if rng.chance(1, 2) { vec![0x0d, 0x0a, 0x0d, 0x0a] } else { Vec::new() };
        // permute the KDF dictionary entries
        if let Some(f) = self.fields.iter_mut().find(|(t, _)| *t == 11) {
            let vd = &f.1;
            let mut p = 2;
            let mut es = Vec::new();
            while vd[p] != 0 {
                let t = vd[p];
                let kl = u32::from_le_bytes([vd[p + 1], vd[p + 2], vd[p + 3], vd[p + 4]]) as usize;
                let k = vd[p + 5..p + 5 + kl].to_vec();
                let q = p + 5 + kl;
                let vl = u32::from_le_bytes([vd[q], vd[q + 1], vd[q + 2], vd[q + 3]]) as usize;
                es.push((k, t, vd[q + 4..q + 4 + vl].to_vec()));
                p = q + 4 + vl;
            }
            // entries a reader does not know (other writers add their own), of every value type
            for n in 0..rng.below(3) {
                let (ty, val): (u8, Vec<u8>) = match rng.below(7) {
                    0 => (0x08, vec![rng.below(2) as u8]),
                    1 => (0x0C, (rng.next() as i32).to_le_bytes().to_vec()),
                    2 => (0x0D, (rng.next() as i64).to_le_bytes().to_vec()),
                    3 => (0x18, format!("text{}", rng.below(100)).into_bytes()),
                    4 => { let k = rng.below(20) as usize; (0x42, rng.bytes(k)) }
                    5 => (0x04, (rng.next() as u32).to_le_bytes().to_vec()),
                    _ => (0x05, rng.next().to_le_bytes().to_vec()),
                };
                es.push((format!("X{}", n).into_bytes(), ty, val));
            }
            for i in (1..es.len()).rev() {
                let j = rng.below(i as u64 + 1) as usize;
                es.swap(i, j);
            }
            f.1 = vd_bytes(&es);
        }
        let n = self.encrypted().len();
        let mut part = Vec::new();
        let nblocks = match rng.below(4) { 0 => 1, 1 => 2, 2 => rng.range(1, 8), _ => rng.range(1, 64) } as usize;
        let mut left = n;
        for i in 0..nblocks {
            if left == 0 { break; }
            let sz = if i + 1 == nblocks { left } else { (rng.range(1, (left as u64).max(1))) as usize };
            part.push(sz);
            left -= sz;
        }
        self.partition = part;
    }
}

/// An inner header: stream id and key at the given positions among the binaries (which keep their
/// relative order: their position is their identity), then the end field.
pub fn inner_header(atts: &[(u8, Vec<u8>)], cipher: u32, key: &[u8], p_id: usize, p_key: usize) -> Vec<u8> {
    let fld = |t: u8, b: &[u8]| { let mut v = vec![t]; v.extend_from_slice(&(b.len() as u32).to_le_bytes()); v.extend_from_slice(b); v };
    let id_f = fld(1, &cipher.to_le_bytes());
    let key_f = fld(2, key);
    let bins: Vec<Vec<u8>> = atts.iter().map(|(f, c)| { let mut b = vec![*f]; b.extend_from_slice(c); fld(3, &b) }).collect();
    let mut out = Vec::new();
    for (i, b) in bins.iter().enumerate() {
        if i == p_id { out.extend_from_slice(&id_f); }
        if i == p_key { out.extend_from_slice(&key_f); }
        out.extend_from_slice(b);
    }
    if p_id >= bins.len() { out.extend_from_slice(&id_f); }
    if p_key >= bins.len() { out.extend_from_slice(&key_f); }
    out.extend_from_slice(&fld(0, &[]));
    out
}

//! KDBX4 container properties (C01, C03, C04, C05, C07, C08, C09, C12) over generated databases:
//! the real `save`/`open`/`get_xml`, the extracted framing model (`dump4`/`decrypt4`, primitives
//! served by oracle.rs) and the independent strict reader (strict.rs) run on the same data.

use crate::common::*;
use crate::dbgen::*;
use crate::oracle;
use crate::strict;
use keepass::config::{CompressionConfig, DatabaseConfig, DatabaseVersion, InnerCipherConfig, KdfConfig, OuterCipherConfig};
use keepass::error::{DatabaseIntegrityError, DatabaseKeyError, DatabaseOpenError};
use keepass::{Database, DatabaseKey};

pub fn config_term(c: &DatabaseConfig) -> String {
    let minor = match c.version { DatabaseVersion::KDB4(m) => m, _ => 0 };
    format!(
        "({} {} {} {} {})",
        minor,
        match c.outer_cipher_config { OuterCipherConfig::AES256 => "aes256", OuterCipherConfig::Twofish => "twofish", OuterCipherConfig::ChaCha20 => "chacha20" },
        match c.compression_config { CompressionConfig::None => "none", CompressionConfig::GZip => "gzip" },
        match c.inner_cipher_config { InnerCipherConfig::Plain => "plain", InnerCipherConfig::Salsa20 => "salsa20", InnerCipherConfig::ChaCha20 => "chacha20" },
        kdf_term(&c.kdf_config)
    )
}
pub fn kdf_term(k: &KdfConfig) -> String {
    match k {
        KdfConfig::Aes { rounds } => format!("(aes {})", rounds),
        KdfConfig::Argon2 { iterations, memory, parallelism, version } => format!("(argon2 d {} {} {} {})", iterations, memory, parallelism, version.as_u32()),
        KdfConfig::Argon2id { iterations, memory, parallelism, version } => format!("(argon2 id {} {} {} {})", iterations, memory, parallelism, version.as_u32()),
    }
}
/// what the model prints for a configuration read from a file
pub fn config_read_term(c: &DatabaseConfig) -> String {
    let t = config_term(c);
    let (tag, minor) = match c.version { DatabaseVersion::KDB4(m) => ("kdb4", m), DatabaseVersion::KDB3(m) => ("kdb3", m), DatabaseVersion::KDB2(m) => ("kdb2", m), DatabaseVersion::KDB(m) => ("kdb", m) };
    let rest = t[1..].splitn(2, ' ').nth(1).unwrap().to_string();
    format!("(({} {}) {}", tag, minor, rest)
}

/// error classes, named as ocaml/h_kdbx.ml names the model's
pub fn open_error_class(e: &DatabaseOpenError) -> String {
    use DatabaseIntegrityError as I;
    match e {
        DatabaseOpenError::Io(_) => "Io".into(),
        DatabaseOpenError::Key(DatabaseKeyError::IncorrectKey) => "IncorrectKey".into(),
        DatabaseOpenError::Key(k) => format!("Key.{:?}", k).split('(').next().unwrap().to_string(),
        DatabaseOpenError::UnsupportedVersion => "UnsupportedVersion".into(),
        DatabaseOpenError::DatabaseIntegrity(i) => match i {
            I::InvalidKDBXIdentifier => "InvalidKDBXIdentifier".into(),
            I::InvalidKDBXVersion { .. } => "InvalidKDBXVersion".into(),
            I::InvalidFixedHeader { .. } => "InvalidFixedHeader".into(),
            I::HeaderHashMismatch => "HeaderHashMismatch".into(),
            I::InvalidOuterHeaderEntry { .. } => "InvalidOuterHeaderEntry".into(),
            I::IncompleteOuterHeader { .. } => "IncompleteOuterHeader".into(),
            I::InvalidInnerHeaderEntry { .. } => "InvalidInnerHeaderEntry".into(),
            I::IncompleteInnerHeader { .. } => "IncompleteInnerHeader".into(),
            I::Cryptography(_) => "Cryptography".into(),
            I::Xml(x) => format!("Xml.{:?}", x).split(|c| c == '(' || c == ' ' || c == '{').next().unwrap().to_string(),
            I::OuterCipher(_) => "OuterCipher".into(),
            I::InnerCipher(_) => "InnerCipher".into(),
            I::Compression(_) => "Compression".into(),
            I::BlockStream(b) => match b {
                keepass::error::BlockStreamError::BlockHashMismatch { .. } => "BlockHashMismatch".into(),
                _ => "Cryptography".into(),
            },
            I::VariantDictionary(v) => format!("VariantDictionary.{:?}", v).split(|c| c == ' ' || c == '{').next().unwrap().to_string(),
            I::KdfSettings(k) => {
                let s = format!("{:?}", k);
                if s.starts_with("VariantDictionary(") {
                    format!("VariantDictionary.{}", s["VariantDictionary(".len()..].split(|c| c == ' ' || c == '{' || c == ')').next().unwrap())
                } else {
                    format!("KdfSettings.{}", s.split(|c| c == ' ' || c == '{').next().unwrap())
                }
            }
            I::Io(_) => "Io".into(),
            other => format!("Integrity.{:?}", other).split(|c| c == ' ' || c == '{' || c == '(').next().unwrap().to_string(),
        },
    }
}

/// Independent derivation of the key elements (KeePass composite key): SHA-256 of the password,
/// then the key-file key.
pub fn key_elements(password: Option<&str>, keyfile_key: Option<&[u8]>) -> Vec<Vec<u8>> {
    let mut v = Vec::new();
    if let Some(p) = password {
        v.push(oracle::sha256(p.as_bytes()));
    }
    if let Some(k) = keyfile_key {
        v.push(k.to_vec());
    }
    v
}
pub fn elements_term(els: &[Vec<u8>]) -> String {
    if els.is_empty() { "(err)".into() } else { format!("(ok {})", slist(els.iter().map(|e| hexatom(e)))) }
}

pub struct Saved {
    pub db: Database,
    pub bytes: Vec<u8>,
    pub draws: Vec<Vec<u8>>,
    pub password: String,
    pub requested: Vec<usize>,
}

pub fn draw_sizes(cfg: &DatabaseConfig) -> Vec<usize> {
    crate::c11::draw_sizes(cfg)
}

/// save with the random source scripted; Err carries the class of the save error / "panic"
pub fn save_scripted(db: &Database, password: &str, draws: &[Vec<u8>]) -> Result<(Vec<u8>, Vec<usize>), String> {
    // earlier saves of the same database under the same key on this thread (failing in the XML stage, in
    // the sink): the measured save below must not depend on them
    {
        let seed = draws.first().map(|d| d.iter().take(8).fold(0u64, |a, b| (a << 8) | *b as u64)).unwrap_or(0);
        let mut prng = Rng::for_case(seed, "prior-saves", db.root.children.len() as u64);
        if prng.chance(1, 2) { crate::prior::saves(db, &DatabaseKey::new().with_password(password), &mut prng); }
    }
    crate::hook::script(draws.to_vec());
    let r = std::panic::catch_unwind(std::panic::AssertUnwindSafe(|| {
        // the destination is a plain sink: it implements `write` and `flush` only (no vectored or
        // specialised writes), and in half of the cases accepts a bounded number of bytes per call
        let cap = match draws.first().and_then(|d| d.first().copied()) { Some(b) if b % 2 == 1 => 1 + (b as usize) * 7, _ => usize::MAX };
        let mut out = PlainSink { buf: Vec::new(), cap };
        let r = db.save(&mut out, DatabaseKey::new().with_password(password));
        (out.buf, r)
    }));
    let requested = crate::hook::requested();
    crate::hook::unscript();
    match r {
        Err(_) => Err("panic".into()),
        Ok((_, Err(e))) => Err(format!("{:?}", e).split(|c| c == '(' || c == ' ').next().unwrap().to_string()),
        Ok((out, Ok(()))) => Ok((out, requested)),
    }
}

pub struct PlainSink { pub buf: Vec<u8>, pub cap: usize }
impl std::io::Write for PlainSink {
    fn write(&mut self, b: &[u8]) -> std::io::Result<usize> { let n = b.len().min(self.cap); self.buf.extend_from_slice(&b[..n]); Ok(n) }
    fn flush(&mut self) -> std::io::Result<()> { Ok(()) }
}

fn find_sub(hay: &[u8], needle: &[u8]) -> bool {
    !needle.is_empty() && hay.windows(needle.len()).any(|w| w == needle)
}
fn utf16le(b: &[u8]) -> Vec<u8> {
    String::from_utf8_lossy(b).encode_utf16().flat_map(|u| u.to_le_bytes()).collect()
}

pub fn run(args: &Args) {
    let prop = args.prop.clone();
    let mut agg = Aggregate::new();
    let hostile = prop == "C12";
    let n = match prop.as_str() { "C12" => args.n(1_500, 100_000), _ => args.n(300, 10_000) };
    let mut streams: Vec<(&str, u64)> = if hostile { vec![("hostile", n), ("large", args.n(8, 64))] } else { vec![("save-open", n), ("large", args.n(8, 64))] };
    // C03 only: tags that contain the separators of the KeePass tag list (finding F18)
    if prop == "C03" { streams.push(("tag-separators", args.n(12, 200))); }
    for (stream, count) in streams {
    let large = stream == "large";
    let tagsep = stream == "tag-separators";
    run_cases(&mut agg, args, stream, count, |case_i, rng, model| {
        let mut o = CaseOutcome::default();
        let (db, markers, pmarkers, htags) = {
            // hostile cases use ingredients of ONE class (3 of 4 cases) so that a failure is attributable
            let only = if hostile && rng.chance(3, 4) { Some(*rng.pick(HOSTILE_CLASSES)) } else { None };
            let mut g = G::new(rng, if hostile { Mode::Hostile } else { Mode::Lossless }, prop == "C08");
            g.only = only;
            let mut db = g.database(true);
            if large {
                // sizes around the boundaries that block-wise code tends to use: payloads of 64 KiB .. 2 MiB,
                // single protected values above 64 KiB, exact powers of two
                use keepass::db::{Entry, Node, Value, HeaderAttachment};
                use keepass::config::{CompressionConfig, OuterCipherConfig, KdfConfig};
                db.config.kdf_config = KdfConfig::Aes { rounds: 1 };
                if case_i % 2 == 0 { db.config.outer_cipher_config = OuterCipherConfig::ChaCha20; db.config.compression_config = CompressionConfig::None; }
                for j in 0..(40 + g.rng.below(400)) {
                    let mut e = Entry::default();
                    e.uuid = g.uuid();
                    e.fields.insert("Title".into(), Value::Unprotected(g.text()));
                    e.fields.insert("UserName".into(), Value::Unprotected(format!("user{}", j)));
                    e.fields.insert("Password".into(), Value::Protected(g.text().as_bytes().into()));
                    e.times = g.times();
                    db.root.children.push(Node::Entry(e));
                }
                let mut big = Entry::default();
                big.uuid = g.uuid();
                let n = 65_536 + g.rng.below(20_000) as usize;
                let body: String = (0..n).map(|k| (b'a' + ((k * 7 + case_i as usize) % 26) as u8) as char).collect();
                let tail_marker = g.text();
                big.fields.insert("Notes".into(), Value::Protected(format!("{}{}", body, tail_marker).as_bytes().into()));
                big.times = g.times();
                db.root.children.push(Node::Entry(big));
                // an incompressible attachment of 40..200 KiB in half of the compressed cases
                if case_i % 2 == 1 && g.rng.chance(1, 2) {
                    let n = *g.rng.pick(&[40_000usize, 66_000, 100_000, 200_000]);
                    let noise = g.rng.bytes(n);
                    db.header_attachments.push(HeaderAttachment { flags: 0, content: noise });
                    db.config.compression_config = CompressionConfig::GZip;
                }
                db.header_attachments.push(HeaderAttachment { flags: 1, content: vec![0x5a; 1000] });
                // an attachment stored in the XML (Meta/Binaries) above 64 KiB: incompressible content, with
                // and without the Compressed flag, and a compressible one of 1 MiB
                if g.rng.chance(2, 3) {
                    let n = *g.rng.pick(&[65_537usize, 70_000, 98_304, 196_608]);
                    let content = if g.rng.chance(1, 4) { vec![0u8; 1 << 20] } else { g.rng.bytes(n) };
                    let compressed = g.rng.chance(1, 2);
                    db.meta.binaries.binaries.push(keepass::db::BinaryAttachment { identifier: Some("big".into()), compressed, content });
                }
            }
            if tagsep {
                use keepass::db::{Entry, Node};
                let mut e = Entry::default();
                e.uuid = g.uuid();
                e.times = g.times();
                e.tags.push(format!("work{}home", g.rng.pick(&[";", ","])));
                db.root.children.push(Node::Entry(e));
            }
            if let Some(c) = only { g.hostile_tags.push(format!("class-only:{}", c)); }
            (db, g.markers, g.protected_markers, g.hostile_tags)
        };
        let password = rng.pick(&["pw", "", "p\u{e4}ss", "a b"]).to_string();
        let draws: Vec<Vec<u8>> = draw_sizes(&db.config).into_iter().map(|n| rng.bytes(n)).collect();
        let mut db = db;
        if large && case_i % 2 == 0 {
            // probe save, then size the last attachment so that the (stream-cipher, uncompressed) payload
            // is exactly a power of two (or one byte off)
            if let Ok((probe, _)) = save_scripted(&db, &password, &draws) {
                if let Ok(sp) = strict::read(&probe, &key_elements(Some(&password), None)) {
                    let cur = sp.payload_encrypted.len();
                    let up = |m: usize| ((cur + 16) / m + 1) * m; // next multiple of m above the current size
                    let target = match (case_i / 2) % 8 {
                        0 => up(1 << 20),          // exact multiple of 1 MiB (the block size KeePass uses)
                        1 => up(1 << 16),          // exact multiple of 64 KiB
                        2 => 2 * (1 << 20),        // 2 MiB
                        3 => up(1 << 20) - 1,
                        4 => up(1 << 20) + 1,
                        5 => up(1 << 12),          // exact multiple of 4 KiB
                        6 => up(1 << 16) + 1,
                        _ => up(1 << 18),
                    };
                    if let Some(a) = db.header_attachments.last_mut() { a.content.extend(std::iter::repeat(0x5a).take(target - cur)); }
                }
            }
        }
        let db = db;
        let before = db.clone();
        let cfg_s = config_term(&db.config);
        o.tags.push(format!("cfg:{}", cfg_s.split(' ').skip(1).take(3).collect::<Vec<_>>().join("/")));
        for t in &htags { o.tags.push(format!("hostile:{}", t)); }
        o.input = format!("(db cfg {} entries/groups {} draws {})", cfg_s, db.root.iter().count(), slist(draws.iter().map(|d| hexatom(d))));
        let saved = save_scripted(&db, &password, &draws);
        if db != before {
            o.violation = Some("save modified the in-memory database".into());
        }
        let (bytes, requested) = match saved {
            Err(class) => {
                o.tags.push(format!("save:{}", class));
                if class == "panic" {
                    o.violation = Some("save panicked".into());
                    if htags.iter().any(|t| t == "bytes-value-invalid-utf8") { o.violation_class = Some("bytes-value-not-utf8".into()); }
                } else if !hostile {
                    o.violation = Some(format!("save of a lossless database failed: {}", class));
                }
                o.nontrivial = hostile;
                return o;
            }
            Ok(x) => x,
        };
        o.tags.push("save:ok".into());
        let key = DatabaseKey::new().with_password(&password);
        let opened = std::panic::catch_unwind(|| Database::open(&mut &bytes[..], DatabaseKey::new().with_password(&password)));
        let els = key_elements(Some(&password), None);

        // ---------- C12: a successful save is readable; nothing panics ----------
        match &opened {
            Err(_) => { o.violation = Some("open of a saved file panicked".into()); }
            Ok(Err(e)) => {
                let cls = open_error_class(e);
                o.tags.push(format!("reopen:{}", cls));
                o.violation = Some(format!("save succeeded but open fails: {} ({:?})", cls, e).chars().take(300).collect());
                // class of the input (recomputed from the input, not from the failure): attributable only
                // when the database was generated with ingredients of a single class
                let only = htags.iter().find_map(|t| t.strip_prefix("class-only:"));
                let has = |t: &str| htags.iter().any(|x| x == t);
                o.violation_class = match only {
                    Some("non-xml-character") if has("c0-control") || has("nonchar") => Some("non-xml-character".into()),
                    Some("blank-map-key") if has("empty-key") || has("blank-key") => Some("blank-map-key".into()),
                    Some("time-stamp-name") => Some("time-stamp-name".into()),
                    Some("empty-icon-or-binary") if has("empty-bytes") => Some("empty-icon-or-binary".into()),
                    Some(_) => None,
                    // mixtures: attributed to a known class when one of its ingredients is present
                    None => if has("c0-control") || has("nonchar") { Some("non-xml-character".into()) }
                            else if has("empty-key") || has("blank-key") { Some("blank-map-key".into()) }
                            else if htags.iter().any(|t| t.starts_with("time-name-")) { Some("time-stamp-name".into()) }
                            else if has("empty-bytes") { Some("empty-icon-or-binary".into()) } else { None },
                };
            }
            Ok(Ok(d2)) => {
                o.tags.push("reopen:ok".into());
                // ---------- C03: identity on the lossless domain ----------
                if !hostile && *d2 != db {
                    o.violation = Some(format!("save followed by open is not the identity: {}", crate::diff::first_difference(&db, d2)));
                    if tagsep {
                        // the class is recomputed from the input: the only difference allowed to count is the split tag
                        let mut d3 = d2.clone();
                        fn rejoin(g: &mut keepass::db::Group, want: &keepass::db::Group) {
                            for (n, w) in g.children.iter_mut().zip(want.children.iter()) {
                                match (n, w) {
                                    (keepass::db::Node::Entry(e), keepass::db::Node::Entry(we)) => if we.tags.iter().any(|t| t.contains(';') || t.contains(',')) { e.tags = we.tags.clone(); },
                                    (keepass::db::Node::Group(a), keepass::db::Node::Group(b)) => rejoin(a, b),
                                    _ => {}
                                }
                            }
                        }
                        rejoin(&mut d3.root, &db.root);
                        if d3 == db { o.violation_class = Some("tag-separator".into()); }
                    }
                }
            }
        }
        if hostile {
            // the same database saved into sinks that stop taking bytes (a full device, a fixed buffer): success
            // is acceptable only together with bytes that can be read back
            if o.violation.is_none() && bytes.len() < 200_000 {
                for (j, quota) in [0usize, bytes.len() / 2, bytes.len().saturating_sub(1)].into_iter().enumerate() {
                    let mut sink = crate::prior::QuotaSink { buf: Vec::new(), quota, zero: (case_i as usize + j) % 2 == 0 };
                    let r = std::panic::catch_unwind(std::panic::AssertUnwindSafe(|| db.save(&mut sink, key.clone())));
                    match r {
                        Err(_) => { o.violation = Some(format!("save into a sink with room for {} bytes panicked", quota)); }
                        Ok(Ok(())) => {
                            if Database::open(&mut &sink.buf[..], key.clone()).is_err() {
                                o.violation = Some(format!("save returned Ok into a sink that took {} of about {} bytes; what was written does not open", sink.buf.len(), bytes.len()));
                            }
                        }
                        Ok(Err(_)) => { o.tags.push("bounded-sink:error".into()); }
                    }
                }
            }
            o.nontrivial = !htags.is_empty();
            return o;
        }
        o.nontrivial = db.root.iter().count() >= 3;

        // ---------- C09 (hook on): draws requested in order, placed verbatim ----------
        if requested != draw_sizes(&db.config) {
            o.violation = Some(format!("random draws requested {:?}, expected {:?}", requested, draw_sizes(&db.config)));
        }

        // ---------- C07: the independent strict reader accepts and decodes the same content ----------
        let st = strict::read(&bytes, &els);
        let xml_impl = Database::get_xml(&mut &bytes[..], key.clone()).ok();
        match &st {
            Err(why) => { o.violation = Some(format!("independent strict reader rejects the saved file: {}", why)); return o; }
            Ok(s) => {
                // (TwofishCipher::decrypt leaves the PKCS#7 padding on the payload: get_xml then carries
                //  up to 16 trailing padding bytes after the document; noted in DESIGN.md)
                let same_xml = match &xml_impl {
                    Some(x) if s.cipher == 1 && s.compression == 0 => x.len() >= s.xml.len() && x.len() - s.xml.len() <= 16 && x[..s.xml.len()] == s.xml[..],
                    Some(x) => *x == s.xml,
                    None => false,
                };
                if !same_xml {
                    o.violation = Some(format!("independent reader decodes a different XML payload: strict {} bytes, get_xml {:?} bytes", s.xml.len(), xml_impl.as_ref().map(|x| x.len())));
                }
                if s.master_seed != draws[0] || s.iv != draws[1] || s.inner_key != draws[2] || s.kdf_seed != draws[3] {
                    o.violation = Some("a random draw is not placed verbatim in its header field".into());
                }
                let atts: Vec<(u8, Vec<u8>)> = db.header_attachments.iter().map(|a| (a.flags, a.content.clone())).collect();
                if s.attachments != atts || s.kdf != kdf_term(&db.config.kdf_config) {
                    o.violation = Some("independent reader sees different attachments or KDF parameters".into());
                }
                if xml::reader::EventReader::new(&s.xml[..]).into_iter().any(|e| e.is_err()) {
                    o.violation = Some("payload is not a well-formed XML document".into());
                }
            }
        }
        let s = st.unwrap();
        // the content, decoded without the library's inner stream: protected values are decrypted in
        // document order with the key stream KeePass derives from the inner header, the document is
        // re-framed with no inner stream, and what the library reads from that must be the database
        if !large || case_i % 4 == 1 {
            match crate::legacy::reprotect(&s.xml, (s.inner_cipher, &s.inner_key), (0, &[])) {
                None => o.violation = Some("a protected value in the saved document is not base64".into()),
                Some((plain_xml, nprot)) => {
                    let mut parts = crate::frame::Parts::of(&bytes, &s, &els);
                    parts.payload = crate::frame::inner_header(&s.attachments, 0, &[0u8], 0, 0);
                    parts.payload.extend_from_slice(&plain_xml);
                    parts.partition = vec![usize::MAX / 2];
                    let f2 = parts.build();
                    let mut want = db.clone();
                    want.config.inner_cipher_config = InnerCipherConfig::Plain;
                    match Database::open(&mut &f2[..], DatabaseKey::new().with_password(&password)) {
                        Ok(d) if d == want => {}
                        Ok(d) => o.violation = Some(format!("independently decoded content ({} protected values) differs from the saved database: {}", nprot, crate::diff::first_difference(&want, &d))),
                        Err(e) => o.violation = Some(format!("independently decoded content does not re-open: {}", open_error_class(&e))),
                    }
                }
            }
        }

        // ---------- framing correspondence: writer byte-exact, reader field-exact ----------
        let vd_s = slist(s.vd_order.iter().map(|(k, v)| format!("({} {})", hexatom(k), v)));
        let atts_s = slist(db.header_attachments.iter().map(|a| format!("({} {})", a.flags, hexatom(&a.content))));
        if bytes.len() > 400_000 { o.tags.push("model:skipped-large".into()); }
        let dump_req = if bytes.len() > 400_000 { String::new() } else { format!("(dump4 {} {} {} {} {} {})", cfg_s, slist(draws.iter().map(|d| hexatom(d))), vd_s, elements_term(&els), atts_s, hexatom(&s.xml)) };
        let want = format!("ok {}", hexatom(&bytes));
        let dump_model = if dump_req.is_empty() { want.clone() } else { model.eval_with(&dump_req, &oracle::serve) };
        if dump_model != want {
            o.disagreement = Some((format!("save bytes {}", &want[..want.len().min(120)]), format!("model dump4 {}", &dump_model[..dump_model.len().min(120)])));
        }
        let dec_req = format!("(decrypt4 {} {})", hexatom(&bytes), elements_term(&els));
        let want = format!("ok {} {} {} {}", config_read_term(&db.config), atts_s, hexatom(&draws[2]), hexatom(xml_impl.as_ref().unwrap_or(&s.xml)));
        let dec_model = if bytes.len() > 400_000 { want.clone() } else { model.eval_with(&dec_req, &oracle::serve) };
        if dec_model != want && o.disagreement.is_none() {
            o.disagreement = Some((want.chars().take(200).collect(), dec_model.chars().take(200).collect()));
        }

        // ---------- C08: nothing of the content in clear ----------
        if prop == "C08" {
            let body = &bytes[s.header_len..];
            for m in markers.iter().chain(pmarkers.iter()) {
                // (a marker may lead a longer value: its base64 image is that of its first 24 bytes)
                let b64 = base64::Engine::encode(&base64::engine::general_purpose::STANDARD, &m[..m.len() / 3 * 3]);
                let hexm = hex::encode(m);
                // anywhere in the file, the outer header included (it carries configuration only)
                let all = &bytes[..];
                if find_sub(all, m) || find_sub(all, b64.as_bytes()) || find_sub(all, hexm.as_bytes()) || find_sub(all, &utf16le(m)) {
                    o.violation = Some(format!("a content marker appears in clear (raw/base64/hex/UTF-16) in the saved file{}", if find_sub(body, m) { "" } else { " - in the outer header" }));
                }
            }
            if find_sub(body, b"<KeePassFile") || find_sub(body, b"<Entry>") || find_sub(body, b"<?xml") {
                o.violation = Some("XML structure appears in clear in the saved file".into());
            }
            if !matches!(db.config.inner_cipher_config, InnerCipherConfig::Plain) {
                for m in &pmarkers {
                    let b64 = base64::Engine::encode(&base64::engine::general_purpose::STANDARD, &m[..m.len() / 3 * 3]);
                    if find_sub(&s.xml, m) || find_sub(&s.xml, b64.as_bytes()) {
                        o.violation = Some("a protected value appears in clear or as plain base64 inside the payload".into());
                    }
                }
                // equal protected plaintexts at different positions carry different ciphertexts:
                // collect the texts of all Protected="True" values
                let text = String::from_utf8_lossy(&s.xml).to_string();
                let mut cts: Vec<&str> = Vec::new();
                for part in text.split("<Value Protected=\"True\">").skip(1) {
                    if let Some(end) = part.find("</Value>") { cts.push(&part[..end]); }
                }
                let mut sorted = cts.clone();
                sorted.sort();
                sorted.dedup();
                if sorted.len() != cts.len() && cts.iter().any(|c| !c.is_empty()) {
                    // (values of a few bytes collide by chance - 256 possible ciphertexts for one byte - so
                    //  only ciphertexts of at least 8 bytes, 12 base64 characters, are compared)
                    let dup_nonempty = { let mut seen = std::collections::HashSet::new(); cts.iter().any(|c| c.len() >= 12 && !seen.insert(*c)) };
                    if dup_nonempty { o.violation = Some("two protected values carry the same ciphertext".into()); }
                }
                o.tags.push(format!("protected-values:{}", match cts.len() { 0 => "0", 1 => "1", 2..=5 => "2-5", _ => ">5" }));
            }
        }
        o
    });
    }
    // C07: the same for every composition of credentials (passwords of every kind, key files in every
    // documented encoding and of every size up to 100 000 bytes, delivered in one piece or in many): the
    // independent reader, which derives the key from the raw credentials itself, accepts the saved file
    if prop == "C07" {
        run_cases(&mut agg, args, "credentials", args.n(80, 1_500), |_i, rng, _model| {
            let mut o = CaseOutcome::default();
            // a quarter of the cases: a key file above 64 KiB (hashed as a whole)
            let big = if rng.chance(1, 4) { let n = *rng.pick(&[65_537usize, 70_000, 100_000, 131_073]); let d = rng.bytes(n); let k = oracle::sha256(&d); Some(crate::kdbx2::Creds { password: if rng.chance(1, 2) { Some("pw".into()) } else { None }, keyfile: Some(d), keyfile_key: Some(k), kind: "hashed-arbitrary-bytes" }) } else { None };
            let Some(base) = crate::kdbx2::make_base_with(rng, true, big) else { o.violation = Some("save failed".into()); return o; };
            o.input = format!("(saved under creds {} password {:?} keyfile {} bytes)", base.creds.kind, base.creds.password, base.creds.keyfile.as_ref().map(|k| k.len()).unwrap_or(0));
            o.tags.push(format!("creds:{}", base.creds.kind));
            match strict::read(&base.bytes, &base.creds.elements()) {
                Err(why) => o.violation = Some(format!("independent strict reader, keyed from the raw credentials, rejects the saved file: {}", why)),
                Ok(s) => {
                    let x = Database::get_xml(&mut &base.bytes[..], base.creds.key()).ok();
                    let same = match &x { Some(x) if s.cipher == 1 && s.compression == 0 => x.len() >= s.xml.len() && x[..s.xml.len()] == s.xml[..], Some(x) => *x == s.xml, None => false };
                    if !same { o.violation = Some("independent reader decodes another XML payload than the library".into()); }
                }
            }
            o.nontrivial = true;
            o
        });
    }
    write_report(
        args,
        &agg,
        if hostile {
            "databases from the hostile generator over the public structs (empty/blank strings and keys, C0/C1 controls, U+FFFE/FFFF, CR, separators, markup, Value::Bytes incl. invalid UTF-8, protected values empty / invalid UTF-8, empty icons and binaries, odd time-stamp names, sub-second times, extreme integers and dates) x cheap KDBX4 configurations; each is saved (random source scripted, plain sink; in half of the cases after earlier saves on the same thread that fail in the XML stage or in the sink) and re-opened under catch_unwind, and saved again into sinks that take 0, half and all but one of the bytes (success only with a readable file); stream `large`: hostile databases with 40..440 extra entries, a protected value and a Meta/Binaries attachment above 64 KiB; non-trivial = at least one hostile ingredient used; distinct = distinct (configuration, size, draws)"
        } else {
            "(C07 also: stream credentials - small databases saved under every composition of credentials incl. key files up to 100 000 bytes; the independent reader keyed from the raw credentials must accept them) databases over the whole public object model inside the lossless domain (every field of Database/Meta/Group/Entry/Times/AutoType/History/CustomData/BinaryAttachment/Icon/HeaderAttachment/DeletedObject, strings with markup, LF/TAB, leading/trailing blanks, astral code points, years 1..9999, integer extremes, colours with small components) x KDBX4 configurations (3 outer ciphers x 2 compressions x 3 inner ciphers x AES-KDF rounds, minor versions); saved with scripted draws into a plain sink (only `write`/`flush`; in half of the cases it accepts a bounded number of bytes per call; in half of the cases after earlier saves of the same database on the same thread that fail in the XML stage or in the sink), re-opened, decoded by the independent strict reader, and pushed through the extracted dump4/decrypt4 model; non-trivial = at least three nodes; distinct = distinct (configuration, size, draws); stream `large`: the same with 40..440 extra entries, one protected value above 64 KiB, a 1000-byte attachment, (two thirds of the cases) a Meta/Binaries attachment above 64 KiB - incompressible noise or 1 MiB of zeros, with and without the Compressed flag - and (every second case, ChaCha20 without compression) the payload sized to exactly 2^17/2^18/2^20/2^21 bytes or one byte off"
        },
        serde_json::json!({}),
    );
}

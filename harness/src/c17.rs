//! C17: entry history.  Operation sequences are applied to a real `Entry`; the same sequence, with
//! data blocks interned to numbers and the clock value read back, is run through the model.

use crate::canon::*;
use crate::common::*;
use keepass::db::{AutoType, AutoTypeAssociation, Color, CustomDataItem, Entry, History, Times, Value};
use secstr::SecStr;
use uuid::Uuid;

const KEYS: &[&str] = &["Title", "UserName", "Password", "URL", "Notes", "otp", "X"];
const VALS: &[&str] = &["", "a", "b", "secret", "\u{e9}\u{1F511}", " x "];

fn rand_value(rng: &mut Rng) -> Value {
    let v = rng.pick(VALS).to_string();
    match rng.below(4) {
        0 => Value::Protected(SecStr::new(v.into_bytes())),
        1 => Value::Bytes(v.into_bytes()),
        _ => Value::Unprotected(v),
    }
}

fn rand_edit(rng: &mut Rng, e: &mut Entry) -> &'static str {
    match rng.below(12) {
        0 | 1 | 2 => {
            e.fields.insert(rng.pick(KEYS).to_string(), rand_value(rng));
            "set-field"
        }
        3 => {
            let k = rng.pick(KEYS).to_string();
            e.fields.remove(&k);
            "remove-field"
        }
        4 => {
            if rng.chance(1, 3) {
                e.tags.clear();
            } else {
                e.tags.push(rng.pick(VALS).to_string());
            }
            "tags"
        }
        5 => {
            e.foreground_color = if rng.chance(1, 4) { None } else { Some(Color { r: rng.below(3) as u8, g: 200, b: rng.below(256) as u8 }) };
            "fg"
        }
        6 => {
            e.background_color = if rng.chance(1, 4) { None } else { Some(Color { r: 1, g: rng.below(2) as u8, b: 3 }) };
            "bg"
        }
        7 => {
            e.autotype = if rng.chance(1, 4) {
                None
            } else {
                Some(AutoType {
                    enabled: rng.chance(1, 2),
                    sequence: if rng.chance(1, 2) { Some(rng.pick(VALS).to_string()) } else { None },
                    associations: (0..rng.below(3))
                        .map(|_| AutoTypeAssociation { window: Some(rng.pick(VALS).to_string()), sequence: None })
                        .collect(),
                })
            };
            "autotype"
        }
        8 => {
            let k = rng.pick(KEYS).to_string();
            if rng.chance(1, 4) {
                e.custom_data.items.remove(&k);
            } else {
                e.custom_data.items.insert(
                    k,
                    CustomDataItem {
                        value: if rng.chance(1, 3) { None } else { Some(rand_value(rng)) },
                        last_modification_time: if rng.chance(1, 2) { Some(mk_time(1000 + rng.below(5) as i64)) } else { None },
                    },
                );
            }
            "custom-data"
        }
        9 => {
            e.icon_id = if rng.chance(1, 3) { None } else { Some(rng.below(4) as usize) };
            "icon"
        }
        10 => {
            e.override_url = if rng.chance(1, 3) { None } else { Some(rng.pick(VALS).to_string()) };
            e.quality_check = if rng.chance(1, 3) { None } else { Some(rng.chance(1, 2)) };
            "url-qc"
        }
        _ => {
            e.custom_icon_uuid = if rng.chance(1, 2) { None } else { Some(Uuid::from_u128(77 + rng.below(2) as u128)) };
            "custom-icon"
        }
    }
}

fn rand_times_edit(rng: &mut Rng, t: &mut Times) {
    match rng.below(5) {
        0 => t.expires = !t.expires,
        1 => t.usage_count = rng.below(5) as usize,
        2 => t.set_expiry(mk_time(5000 + rng.below(10) as i64)),
        3 => t.set_last_access(mk_time(6000 + rng.below(10) as i64)),
        _ => {
            t.times.insert("Custom".into(), mk_time(7000 + rng.below(3) as i64));
        }
    }
}

fn rand_entry(rng: &mut Rng, uuid: u128, with_hist: bool) -> Entry {
    let mut e = Entry::default();
    e.uuid = Uuid::from_u128(uuid);
    for _ in 0..rng.below(4) {
        rand_edit(rng, &mut e);
    }
    if rng.chance(3, 4) {
        // mostly in the past; sometimes ahead of the clock (files written by a client whose clock runs ahead)
        let t = if rng.chance(1, 6) { 4_102_444_800 + rng.below(1000) as i64 } else { 100 + rng.below(50) as i64 };
        e.times.set_last_modification(mk_time(t));
    }
    if rng.chance(1, 2) {
        e.times.set_location_changed(mk_time(100 + rng.below(50) as i64));
    }
    if rng.chance(1, 2) {
        rand_times_edit(rng, &mut e.times);
    }
    if with_hist {
        match rng.below(4) {
            0 => {}
            1 => e.history = Some(History::default()),
            _ => {
                let mut h = History::default();
                for _ in 0..rng.range(1, 3) {
                    let xu = if rng.chance(4, 5) { uuid } else { uuid + 1 };
                    let xh = rng.chance(1, 3);
                    let x = rand_entry(rng, xu, xh);
                    h.add_entry(x);
                }
                // sometimes make the newest item equal to the entry itself (no uncommitted changes)
                if rng.chance(1, 2) {
                    let mut me = e.clone();
                    me.history = None;
                    h.add_entry(me);
                }
                e.history = Some(h);
            }
        }
    }
    e
}

pub fn run(args: &Args) {
    let n = args.n(6_000, 300_000);
    let mut agg = Aggregate::new();
    run_cases(&mut agg, args, "ops", n, |_i, rng, model| {
        let mut int = Interner::new();
        let mut e = rand_entry(rng, 1, true);
        let start_s = int.entry(&e);
        let maxops = if rng.chance(1, 5) { 30 } else { 8 };
        let nops = rng.range(1, maxops);
        let mut ops: Vec<String> = Vec::new();
        let mut flags: Vec<String> = Vec::new();
        let mut o = CaseOutcome::default();
        let mut added = 0;
        let mut noop_commits = 0;
        let mut saved: Vec<Entry> = Vec::new(); // earlier versions to revert to
        for _ in 0..nops {
            let before = e.clone();
            match rng.below(10) {
                0..=3 => {
                    let kind = rand_edit(rng, &mut e);
                    o.tags.push(format!("op:{}", kind));
                    ops.push(format!("(data {})", int.data(entry_data_s(&e))));
                }
                4 => {
                    // revert all data fields to an earlier version
                    if let Some(old) = saved.last().cloned() {
                        let (u, t, h) = (e.uuid, e.times.clone(), e.history.clone());
                        e = old;
                        e.uuid = u;
                        e.times = t;
                        e.history = h;
                    }
                    o.tags.push("op:revert".into());
                    ops.push(format!("(data {})", int.data(entry_data_s(&e))));
                }
                5 => {
                    if rng.chance(1, 3) {
                        let t = 200 + rng.below(50) as i64;
                        e.times.set_location_changed(mk_time(t));
                        ops.push(format!("(lc {})", t));
                    } else {
                        rand_times_edit(rng, &mut e.times);
                        ops.push(format!("(rest {})", int.rest(times_rest_s(&e.times))));
                    }
                    o.tags.push("op:times".into());
                }
                6..=8 => {
                    let reps = if rng.chance(1, 4) { 2 } else { 1 };
                    for _ in 0..reps {
                        let before = e.clone();
                        // the clock is read independently of the library (whole seconds, rounded down)
                        let clock = || chrono::DateTime::from_timestamp(chrono::Utc::now().timestamp(), 0).unwrap().naive_utc();
                        let t0 = clock();
                        let flag = e.update_history();
                        let t1 = clock();
                        flags.push(flag.to_string());
                        let now = match (flag, e.times.get_last_modification()) {
                            (true, Some(t)) => {
                                if *t < t0 || *t > t1 || t.and_utc().timestamp_subsec_nanos() != 0 {
                                    o.violation = Some("commit: modification time is not the current time in whole seconds".into());
                                }
                                time_secs(t)
                            }
                            _ => 0,
                        };
                        ops.push(format!("(commit {})", now));
                        // the property, evaluated on the implementation alone
                        let h = e.history.as_ref().map(|h| h.get_entries().clone()).unwrap_or_default();
                        let hb = before.history.as_ref().map(|h| h.get_entries().clone()).unwrap_or_default();
                        if flag {
                            added += 1;
                            let mut me = e.clone();
                            me.history = None;
                            if h.is_empty() || h[0] != me || h[1..] != hb[..] {
                                o.violation = Some("commit added: newest item is not the entry without history, or older items changed".into());
                            }
                        } else {
                            noop_commits += 1;
                            if e != before {
                                o.violation = Some("commit without changes altered the entry".into());
                            }
                        }
                        saved.push(before);
                    }
                    o.tags.push(format!("op:commit{}", if reps == 2 { "-twice" } else { "" }));
                }
                _ => {
                    let xu = if rng.chance(2, 3) { 1 } else { 2 };
                    let x = rand_entry(rng, xu, true);
                    ops.push(format!("(ext {})", int.entry(&x)));
                    let h = e.history.get_or_insert_with(History::default);
                    h.add_entry(x);
                    o.tags.push("op:add-external".into());
                }
            }
            // invariants after every operation, on the implementation alone
            let h = e.history.as_ref().map(|h| h.get_entries().clone()).unwrap_or_default();
            let hb = before.history.as_ref().map(|h| h.get_entries().clone()).unwrap_or_default();
            if h.len() < hb.len() || h[h.len() - hb.len()..] != hb[..] {
                o.violation = Some("an earlier history item was altered or dropped".into());
            }
            if h.len() > hb.len() && h[0].history.is_some() {
                o.violation = Some("a newly added history item carries a history of its own".into());
            }
        }
        let input = format!("(c17 {} {})", start_s, slist(ops));
        let impl_s = format!("(flags {}) {}", slist(flags), int.entry(&e));
        let model_s = model.eval(&input);
        o.nontrivial = added >= 1 && noop_commits >= 1;
        o.tags.push(format!("commits-added:{}", added.min(3)));
        o.tags.push(format!("commits-noop:{}", noop_commits.min(3)));
        if impl_s != model_s {
            o.disagreement = Some((impl_s, model_s));
            if o.violation.is_none() {
                o.violation = Some("history after the operation sequence differs from the proved list model".into());
            }
        }
        o.input = input;
        o
    });
    write_report(
        args,
        &agg,
        "random entries (history absent / empty / populated, newest item equal or different, foreign-uuid items, nested histories in externally built items) x 1..30 operations from {field/tag/colour/auto-type/custom-data/icon/url edits, revert to an earlier version, times edits, commit, commit twice, add external item}; the clock value is read back from the entry and checked to be a whole second inside the call window; non-trivial = at least one commit that added and one that did not; distinct = distinct (entry, ops) text",
        serde_json::json!({}),
    );
}

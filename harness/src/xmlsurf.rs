//! Surface rewritings of a KeePass XML document that a conforming writer is free to choose:
//! inter-element white space, comments, unknown elements, <x></x> for <x />, attribute case of
//! Protected, ISO-8601 instead of base64 time stamps.  Hand-written text transformations on the
//! XML produced by the crate itself (whose shape is known: no raw '<' or '>' inside text).

use crate::common::Rng;
use base64::Engine;

fn is_name_char(c: u8) -> bool {
    c.is_ascii_alphanumeric() || c == b'_' || c == b'-' || c == b'.'
}

/// `<Name />` -> `<Name></Name>` (elements without attributes), with probability 1/2 each
pub fn expand_empty(xml: &str, rng: &mut Rng) -> String {
    let b = xml.as_bytes();
    let mut out = Vec::with_capacity(b.len() + 64);
    let mut i = 0;
    while i < b.len() {
        if b[i] == b'<' && i + 1 < b.len() && is_name_char(b[i + 1]) {
            let mut j = i + 1;
            while j < b.len() && is_name_char(b[j]) {
                j += 1;
            }
            if b[j..].starts_with(b" />") && rng.chance(1, 2) {
                let name = &b[i + 1..j];
                out.push(b'<');
                out.extend_from_slice(name);
                out.extend_from_slice(b"></");
                out.extend_from_slice(name);
                out.push(b'>');
                i = j + 3;
                continue;
            }
        }
        out.push(b[i]);
        i += 1;
    }
    String::from_utf8(out).unwrap()
}

/// insert white space / comments / processing instructions between tags
pub fn between_tags(xml: &str, rng: &mut Rng) -> String {
    let mut out = String::with_capacity(xml.len() + 256);
    let chars: Vec<char> = xml.chars().collect();
    let mut depth_ok = false;
    for i in 0..chars.len() {
        out.push(chars[i]);
        if chars[i] == '>' && i + 1 < chars.len() && chars[i + 1] == '<' {
            // not after the XML declaration's '?>' boundary problems: fine there as well
            if i > 1 && chars[i - 1] == '?' {
                depth_ok = true;
            }
            match rng.below(12) {
                0 | 1 => out.push_str("\n  "),
                2 => out.push_str("\r\n\t"),
                3 => out.push_str("<!-- a comment with <tags> & ampersands -->"),
                4 if depth_ok => out.push_str(" <!----> "),
                _ => {}
            }
        }
    }
    out
}

/// unknown elements with nested content where the reader must skip them
pub fn unknown_elements(xml: &str, rng: &mut Rng) -> String {
    let mut out = String::with_capacity(xml.len() + 256);
    let mut rest = xml;
    // (the last one is known inside <Entry>: the reference of an entry to a pool attachment, which the
    //  object model does not keep; elsewhere it is just another unknown element)
    let junk = ["<Unknown><Sub a=\"1\">text</Sub><E /></Unknown>", "<PreviousParentGroup>AAAAAAAAAAAAAAAAAAAAAA==</PreviousParentGroup>", "<X><X><X>deep</X></X></X>", "<Future Protected=\"False\" />", "<Binary><Key>attachment.txt</Key><Value Ref=\"0\" /></Binary>"];
    loop {
        let next = ["<Entry>", "<Group>", "<Meta>", "<AutoType>", "<Association>", "<MemoryProtection>"]
            .iter()
            .filter_map(|t| rest.find(t).map(|p| (p, t.len())))
            .min();
        match next {
            None => { out.push_str(rest); break; }
            Some((p, l)) => {
                out.push_str(&rest[..p + l]);
                if rng.chance(1, 3) {
                    out.push_str(*rng.pick(&junk[..]));
                }
                rest = &rest[p + l..];
            }
        }
    }
    out
}

pub fn protected_case(xml: &str, rng: &mut Rng) -> String {
    let mut out = String::new();
    let mut rest = xml;
    while let Some(p) = rest.find("Protected=\"True\"") {
        out.push_str(&rest[..p]);
        let alts: [&str; 4] = ["Protected=\"True\"", "Protected=\"true\"", "Protected=\"TRUE\"", "Protected='True'"];
        out.push_str(*rng.pick(&alts[..]));
        rest = &rest[p + 16..];
    }
    out.push_str(rest);
    out
}

/// base64 time stamps -> ISO 8601 (as KDBX 3.1 and some writers use), where the year allows
pub fn iso_timestamps(xml: &str, rng: &mut Rng) -> String {
    let b = xml.as_bytes();
    let mut out = String::with_capacity(xml.len());
    let mut i = 0;
    let base = chrono::NaiveDate::from_ymd_opt(1, 1, 1).unwrap().and_hms_opt(0, 0, 0).unwrap();
    while i < b.len() {
        // ...Time>XXXXXXXXXXX=</   or  ...Changed>XXXXXXXXXXX=</
        let at_tag_end = b[i] == b'>' && (xml[..i].ends_with("Time") || xml[..i].ends_with("Changed") || xml[..i].ends_with("Stamp"));
        if at_tag_end && i + 15 <= b.len() && b[i + 13] == b'<' && b[i + 14] == b'/' {
            if let Ok(v) = base64::engine::general_purpose::STANDARD.decode(&b[i + 1..i + 13]) {
                if v.len() == 8 && rng.chance(1, 2) {
                    let mut a = [0u8; 8];
                    a.copy_from_slice(&v);
                    let secs = i64::from_le_bytes(a);
                    if let Some(t) = chrono::Duration::try_seconds(secs).and_then(|d| base.checked_add_signed(d)) {
                        use chrono::Datelike;
                        if t.year() >= 1 && t.year() <= 9999 {
                            out.push('>');
                            out.push_str(&t.format("%Y-%m-%dT%H:%M:%SZ").to_string());
                            i += 13;
                            continue;
                        }
                    }
                }
            }
        }
        out.push(b[i] as char);
        i += 1;
    }
    // the byte-wise copy above is only valid for ASCII; fall back to the original otherwise
    if xml.is_ascii() { out } else { xml.to_string() }
}

pub fn vary(xml: &[u8], rng: &mut Rng) -> (Vec<u8>, Vec<&'static str>) {
    let mut s = match String::from_utf8(xml.to_vec()) { Ok(s) => s, Err(_) => return (xml.to_vec(), vec![]) };
    let mut used = Vec::new();
    if rng.chance(1, 2) { s = expand_empty(&s, rng); used.push("empty-element-forms"); }
    if rng.chance(1, 2) { s = iso_timestamps(&s, rng); used.push("iso-timestamps"); }
    if rng.chance(1, 2) { s = protected_case(&s, rng); used.push("protected-attribute-case"); }
    if rng.chance(1, 2) { s = unknown_elements(&s, rng); used.push("unknown-elements"); }
    if rng.chance(1, 2) { s = between_tags(&s, rng); used.push("whitespace-and-comments"); }
    (s.into_bytes(), used)
}

/// the variations that leave time stamps alone (for documents that are already ISO-8601 throughout)
pub fn vary_no_time(xml: &[u8], rng: &mut Rng) -> (Vec<u8>, Vec<&'static str>) {
    let mut s = match String::from_utf8(xml.to_vec()) { Ok(s) => s, Err(_) => return (xml.to_vec(), vec![]) };
    let mut used = Vec::new();
    if rng.chance(1, 2) { s = expand_empty(&s, rng); used.push("empty-element-forms"); }
    if rng.chance(1, 2) { s = unknown_elements(&s, rng); used.push("unknown-elements"); }
    if rng.chance(1, 2) { s = between_tags(&s, rng); used.push("whitespace-and-comments"); }
    (s.into_bytes(), used)
}

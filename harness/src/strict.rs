//! An independent, strict KDBX4 reader written from the format description (it shares no code
//! with keepass; primitives come from oracle.rs).  It rejects what the library tolerates:
//! duplicate or missing header fields, wrong sizes, missing terminators, non-consecutive blocks,
//! trailing bytes, a compression flag that does not match the payload, an incomplete inner header.

use crate::oracle;

#[derive(Debug, Clone, PartialEq)]
pub struct Strict {
    pub minor: u16,
    pub cipher: u8,        // 0 aes, 1 twofish, 2 chacha20
    pub compression: u32,
    pub master_seed: Vec<u8>,
    pub iv: Vec<u8>,
    pub kdf: String,       // "(aes R)" / "(argon2 id|d I M P V)"
    pub kdf_seed: Vec<u8>,
    pub vd_order: Vec<(Vec<u8>, String)>, // key, value term
    pub header_len: usize,
    pub blocks: Vec<usize>,               // sizes, terminator excluded
    pub inner_cipher: u32,
    pub inner_key: Vec<u8>,
    pub attachments: Vec<(u8, Vec<u8>)>,
    pub xml: Vec<u8>,
    pub payload_encrypted: Vec<u8>,
}

fn u32le(b: &[u8]) -> u32 {
    u32::from_le_bytes([b[0], b[1], b[2], b[3]])
}
fn u64le(b: &[u8]) -> u64 {
    let mut a = [0u8; 8];
    a.copy_from_slice(&b[..8]);
    u64::from_le_bytes(a)
}

const AES: [u8; 16] = [0x31, 0xc1, 0xf2, 0xe6, 0xbf, 0x71, 0x43, 0x50, 0xbe, 0x58, 0x05, 0x21, 0x6a, 0xfc, 0x5a, 0xff];
const TWOFISH: [u8; 16] = [0xad, 0x68, 0xf2, 0x9f, 0x57, 0x6f, 0x4b, 0xb9, 0xa3, 0x6a, 0xd4, 0x7a, 0xf9, 0x65, 0x34, 0x6c];
const CHACHA: [u8; 16] = [0xd6, 0x03, 0x8a, 0x2b, 0x8b, 0x6f, 0x4c, 0xb5, 0xa5, 0x24, 0x33, 0x9a, 0x31, 0xdb, 0xb5, 0x9a];
const KDF_AES4: [u8; 16] = [0x7c, 0x02, 0xbb, 0x82, 0x79, 0xa7, 0x4a, 0xc0, 0x92, 0x7d, 0x11, 0x4a, 0x00, 0x64, 0x82, 0x38];
const KDF_AES3: [u8; 16] = [0xc9, 0xd9, 0xf3, 0x9a, 0x62, 0x8a, 0x44, 0x60, 0xbf, 0x74, 0x0d, 0x08, 0xc1, 0x8a, 0x4f, 0xea];
const KDF_ARGON2D: [u8; 16] = [0xef, 0x63, 0x6d, 0xdf, 0x8c, 0x29, 0x44, 0x4b, 0x91, 0xf7, 0xa9, 0xa4, 0x03, 0xe3, 0x0a, 0x0c];
const KDF_ARGON2ID: [u8; 16] = [0x9e, 0x29, 0x8b, 0x19, 0x56, 0xdb, 0x47, 0x73, 0xb2, 0x3d, 0xfc, 0x3e, 0xc6, 0xf0, 0xa1, 0xe6];

pub fn read(file: &[u8], key_elements: &[Vec<u8>]) -> Result<Strict, String> {
    if file.len() < 12 || file[0..4] != [0x03, 0xd9, 0xa2, 0x9a] || file[4..8] != [0x67, 0xfb, 0x4b, 0xb5] {
        return Err("signature".into());
    }
    let minor = u16::from_le_bytes([file[8], file[9]]);
    if u16::from_le_bytes([file[10], file[11]]) != 4 {
        return Err("major version".into());
    }
    let mut pos = 12;
    let mut seen: std::collections::HashMap<u8, Vec<u8>> = std::collections::HashMap::new();
    loop {
        if pos + 5 > file.len() {
            return Err("header truncated".into());
        }
        let ty = file[pos];
        let len = u32le(&file[pos + 1..pos + 5]) as usize;
        if pos + 5 + len > file.len() {
            return Err("header field past the end".into());
        }
        let buf = file[pos + 5..pos + 5 + len].to_vec();
        pos += 5 + len;
        if ty == 0 {
            break;
        }
        if ty != 1 && seen.insert(ty, buf).is_some() {
            return Err(format!("duplicate header field {}", ty));
        }
        if ![1u8, 2, 3, 4, 7, 11, 12].contains(&ty) {
            return Err(format!("unknown header field {}", ty));
        }
    }
    let header_len = pos;
    let get = |t: u8| seen.get(&t).cloned().ok_or(format!("missing header field {}", t));
    let cid = get(2)?;
    let cipher = if cid == AES { 0 } else if cid == TWOFISH { 1 } else if cid == CHACHA { 2 } else { return Err("cipher id".into()) };
    let comp = get(3)?;
    if comp.len() != 4 {
        return Err("compression field size".into());
    }
    let compression = u32le(&comp);
    if compression > 1 {
        return Err("compression id".into());
    }
    let master_seed = get(4)?;
    if master_seed.len() != 32 {
        return Err("master seed size".into());
    }
    let iv = get(7)?;
    if iv.len() != if cipher == 2 { 12 } else { 16 } {
        return Err("iv size".into());
    }
    // variant dictionary
    let vd = get(11)?;
    if vd.len() < 3 || u16::from_le_bytes([vd[0], vd[1]]) & 0xff00 != 0x0100 {
        return Err("vd version".into());
    }
    let mut p = 2;
    let mut vd_order = Vec::new();
    let mut map: std::collections::HashMap<Vec<u8>, (u8, Vec<u8>)> = std::collections::HashMap::new();
    loop {
        if p >= vd.len() {
            return Err("vd not terminated".into());
        }
        let ty = vd[p];
        p += 1;
        if ty == 0 {
            break;
        }
        if p + 4 > vd.len() { return Err("vd truncated".into()); }
        let kl = u32le(&vd[p..]) as usize;
        p += 4;
        if p + kl + 4 > vd.len() { return Err("vd key past the end".into()); }
        let k = vd[p..p + kl].to_vec();
        p += kl;
        let vl = u32le(&vd[p..]) as usize;
        p += 4;
        if p + vl > vd.len() { return Err("vd value past the end".into()); }
        let v = vd[p..p + vl].to_vec();
        p += vl;
        let term = match (ty, vl) {
            (0x04, 4) => format!("(u32 {})", u32le(&v)),
            (0x05, 8) => format!("(u64 {})", u64le(&v)),
            (0x08, 1) => format!("(bool {})", v[0] != 0),
            (0x0c, 4) => format!("(i32 {})", u32le(&v)),
            (0x0d, 8) => format!("(i64 {})", u64le(&v)),
            (0x18, _) => format!("(str {})", crate::common::hexatom(&v)),
            (0x42, _) => format!("(bytes {})", crate::common::hexatom(&v)),
            _ => return Err("vd value type/size".into()),
        };
        if map.insert(k.clone(), (ty, v)).is_some() {
            return Err("vd duplicate key".into());
        }
        vd_order.push((k, term));
    }
    if p != vd.len() {
        return Err("bytes after the vd terminator".into());
    }
    let getv = |k: &[u8], ty: u8| map.get(k).filter(|(t, _)| *t == ty).map(|(_, v)| v.clone()).ok_or(format!("kdf parameter {:?}", String::from_utf8_lossy(k)));
    let uuid = getv(b"$UUID", 0x42)?;
    let (kdf, kdf_seed) = if uuid == KDF_AES4 || uuid == KDF_AES3 {
        (format!("(aes {})", u64le(&getv(b"R", 0x05)?)), getv(b"S", 0x42)?)
    } else if uuid == KDF_ARGON2D || uuid == KDF_ARGON2ID {
        let v = u32le(&getv(b"V", 0x04)?);
        if v != 0x10 && v != 0x13 { return Err("argon2 version".into()); }
        (format!("(argon2 {} {} {} {} {})", if uuid == KDF_ARGON2ID { "id" } else { "d" }, u64le(&getv(b"I", 0x05)?), u64le(&getv(b"M", 0x05)?), u32le(&getv(b"P", 0x04)?), v), getv(b"S", 0x42)?)
    } else {
        return Err("kdf uuid".into());
    };
    if kdf_seed.len() != 32 {
        return Err("kdf seed size".into());
    }
    if file.len() < header_len + 64 {
        return Err("no header hash/hmac".into());
    }
    let header = &file[..header_len];
    if file[header_len..header_len + 32] != oracle::sha256(header)[..] {
        return Err("header sha256".into());
    }
    if key_elements.is_empty() {
        return Err("no credentials".into());
    }
    let composite = oracle::sha256(&key_elements.concat());
    let transformed = oracle::kdf(&kdf, &kdf_seed, &composite).ok_or("kdf failed")?;
    let master_key = oracle::sha256(&[&master_seed[..], &transformed[..]].concat());
    let hmac_key = oracle::sha512(&[&master_seed[..], &transformed[..], &[1u8][..]].concat());
    let block_key = |i: u64| oracle::sha512(&[&i.to_le_bytes()[..], &hmac_key[..]].concat());
    if file[header_len + 32..header_len + 64] != oracle::hmac256(&block_key(u64::MAX), header)[..] {
        return Err("header hmac (wrong key?)".into());
    }
    // blocks
    let mut pos = header_len + 64;
    let mut idx: u64 = 0;
    let mut payload = Vec::new();
    let mut blocks = Vec::new();
    loop {
        if pos + 36 > file.len() {
            return Err("block stream not terminated".into());
        }
        let size = u32le(&file[pos + 32..pos + 36]) as usize;
        if pos + 36 + size > file.len() {
            return Err("block past the end".into());
        }
        let block = &file[pos + 36..pos + 36 + size];
        let msg = [&idx.to_le_bytes()[..], &file[pos + 32..pos + 36], block].concat();
        if file[pos..pos + 32] != oracle::hmac256(&block_key(idx), &msg)[..] {
            return Err(format!("block {} hmac", idx));
        }
        pos += 36 + size;
        idx += 1;
        if size == 0 {
            break;
        }
        blocks.push(size);
        payload.extend_from_slice(block);
    }
    if pos != file.len() {
        return Err("bytes after the final block".into());
    }
    let decrypted = oracle::outer_dec(cipher, &master_key, &iv, &payload).ok_or("outer decryption failed")?;
    let gz = decrypted.len() >= 2 && decrypted[0] == 0x1f && decrypted[1] == 0x8b;
    if (compression == 1) != gz {
        return Err("compression flag does not match the payload".into());
    }
    let inner = oracle::decompress(compression as u8, &decrypted).ok_or("decompression failed")?;
    // inner header
    let mut p = 0;
    let mut inner_cipher: Option<u32> = None;
    let mut inner_key: Option<Vec<u8>> = None;
    let mut attachments = Vec::new();
    loop {
        if p + 5 > inner.len() { return Err("inner header truncated".into()); }
        let ty = inner[p];
        let len = u32le(&inner[p + 1..p + 5]) as usize;
        if p + 5 + len > inner.len() { return Err("inner field past the end".into()); }
        let buf = &inner[p + 5..p + 5 + len];
        p += 5 + len;
        match ty {
            0 => { if len != 0 { return Err("inner end marker with data".into()); } break; }
            1 => { if len != 4 || inner_cipher.is_some() { return Err("inner stream id".into()); } inner_cipher = Some(u32le(buf)); }
            2 => { if inner_key.is_some() { return Err("duplicate inner key".into()); } inner_key = Some(buf.to_vec()); }
            3 => { if len < 1 { return Err("attachment without flags".into()); } attachments.push((buf[0], buf[1..].to_vec())); }
            _ => return Err("unknown inner field".into()),
        }
    }
    let inner_cipher = inner_cipher.ok_or("no inner stream id")?;
    let inner_key = inner_key.ok_or("no inner stream key")?;
    match inner_cipher {
        0 => {}
        2 => { if inner_key.len() != 32 { return Err("salsa20 key size".into()); } }
        3 => { if inner_key.len() != 32 && inner_key.len() != 64 { return Err("chacha20 key size".into()); } }
        _ => return Err("inner cipher id".into()),
    }
    let xml = inner[p..].to_vec();
    Ok(Strict { minor, cipher, compression, master_seed, iv, kdf, kdf_seed, vd_order, header_len, blocks, inner_cipher, inner_key, attachments, xml, payload_encrypted: payload })
}

mod common;
mod c18;
mod c17;
mod merge;
mod fixtures;
mod probe;
mod io_script;
mod c10;
mod c11;
mod c19;
mod oracle;
mod strict;
mod dbgen;
mod kdbx;
mod diff;
mod hook;
mod c09p;
mod frame;
mod xmlsurf;
mod kdbx2;
mod legacy;
mod canon;
mod xmldb;
mod prior;

use common::Args;

fn main() {
    let argv: Vec<String> = std::env::args().collect();
    if argv.len() < 2 {
        eprintln!("usage: kpverif <property> [--tier quick|thorough] [--seed N] [--report path] [--replay path]");
        std::process::exit(2);
    }
    if argv[1] == "deep-child" {
        kdbx2::deep_child(&argv);
        return;
    }
    #[allow(unused_mut)]
    let mut args = Args {
        prop: argv[1].clone(),
        tier: "quick".into(),
        seed: 1,
        report: "/verif/.cache/report.json".into(),
        replay: None,
        replay_spec: None,
        threads: std::thread::available_parallelism().map(|n| n.get()).unwrap_or(4),
    };
    let mut i = 2;
    while i < argv.len() {
        match argv[i].as_str() {
            "--tier" => { args.tier = argv[i + 1].clone(); i += 2; }
            "--seed" => { args.seed = argv[i + 1].parse().unwrap_or(1); i += 2; }
            "--report" => { args.report = argv[i + 1].clone(); i += 2; }
            "--replay" => { args.replay = Some(argv[i + 1].clone()); i += 2; }
            "--threads" => { args.threads = argv[i + 1].parse().unwrap_or(4); i += 2; }
            _ => { i += 1; }
        }
    }
    if let Some(r) = &args.replay {
        let v: serde_json::Value = serde_json::from_str(&std::fs::read_to_string(r).expect("replay file")).expect("replay json");
        if let (Some(st), Some(sd), Some(ix)) = (v["stream"].as_str(), v["seed"].as_u64(), v["index"].as_u64()) {
            args.replay_spec = Some((st.to_string(), sd, ix));
        }
    }
    match args.prop.as_str() {
        "C18" => c18::run(&args),
        "C17" => c17::run(&args),
        "probe" => probe::run(),
        "probe-det" => probe::det(),
        "probe-chars" => probe::chars(),
        "probe-times" => probe::times_only(),
        "probe-root" => probe::root_rename(),
        "C10" => c10::run(&args),
        "C11" => c11::run(&args),
        "C19" => c19::run(&args),
        "C03" | "C07" | "C08" | "C09" | "C12" => kdbx::run(&args),
        "C09P" => c09p::run(&args),
        "C01" | "C04" | "C05" | "C06" | "C20" => kdbx2::run(&args),
        "C02" => legacy::run(&args),
        "XML" => xmldb::run(&args),
        "C13" | "C14" | "C15" | "C16" => merge::run(&args),
        p => { eprintln!("unknown property {}", p); std::process::exit(2); }
    }
}
